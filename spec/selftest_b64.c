/* native validation of b64_spec.h against RFC 4648 section 10 test vectors */
#include <stdio.h>
#include <string.h>
#include "b64_spec.h"
static int enc(const char *in, const char *want)
{
  int n = (int)strlen(in), bad = 0, olen = 4 * ((n + 2) / 3);
  char out[64];
  for (int g = 0; 3 * g < n; ++g)
    for (int j = 0; j < 4; ++j)
      out[4 * g + j] = (char)spec_b64_enc_char((const unsigned char *)in + 3 * g, n - 3 * g, j);
  out[olen] = 0;
  if (strcmp(out, want)) { printf("FAIL encode(%s) = %s\n", in, out); bad = 1; }
  unsigned char dec[64];
  int dl = 3 * olen / 4 - spec_b64_npad((const unsigned char *)want, olen);
  if (!spec_b64_wellformed((const unsigned char *)want, olen, 64)) { printf("FAIL wellformed(%s)\n", want); bad = 1; }
  for (int g = 0; 4 * g < olen; ++g)
    for (int j = 0; j < 3; ++j)
      dec[3 * g + j] = spec_b64_dec_byte((const unsigned char *)want + 4 * g, j);
  if (dl != n || memcmp(dec, in, n)) { printf("FAIL decode(%s)\n", want); bad = 1; }
  return bad;
}
int main(void)
{
  int bad = enc("", "") | enc("f", "Zg==") | enc("fo", "Zm8=") | enc("foo", "Zm9v") | enc("foob", "Zm9vYg==") | enc("fooba", "Zm9vYmE=") | enc("foobar", "Zm9vYmFy");
  for (int v = 0; v < 64; ++v) if (spec_b64_index(spec_b64_char(v)) != v) { printf("FAIL alphabet %d\n", v); bad = 1; }
  if (!spec_b64_is_key_string((const unsigned char *)"AAECAwQFBgcICQoLDA0ODw==") || spec_b64_is_key_string((const unsigned char *)"AAECAwQFBgcICQoLDA0ODw/A")) { printf("FAIL key string\n"); bad = 1; }
  printf("b64_spec vectors=7 %s\n", bad ? "FAILED" : "ok");
  return bad;
}

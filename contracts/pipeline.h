/* Contracts for the chunk pipeline (kernel/multi_aes/multi_buffergroup.cpp, multicry.cpp): C01, C03, C04, C13, C14.
   Part 1 (this section): the sequential summary of one pipeline run, as used by execute_encrypt / execute_decrypt. */
#ifndef WV_C_PIPELINE_H
#define WV_C_PIPELINE_H
#include "cry.h"
#define WV_BG (buffergroup__instance)
/* bytes the pipeline will read: from the input position to the end of the input */
#define WV_PIPE_N_OLD (__CPROVER_old(WV_BG->fin->pos) <= __CPROVER_old(WV_BG->fin->len) ? __CPROVER_old(WV_BG->fin->len) - __CPROVER_old(WV_BG->fin->pos) : 0ull)
#define WV_ENC_OUT_OLD (16ull * ((WV_PIPE_N_OLD) / 16 + 1))      /* PKCS#7: always 1..16 pad bytes */

void multicry_master__run_multicry(multicry_master *this, Aesmode **mode)
__CPROVER_requires(__CPROVER_is_fresh(this, sizeof(*this)) && this->THREADS_NUM >= 1 && this->THREADS_NUM <= 16 && WV_T_IS(this->THREADS_NUM))
__CPROVER_requires(__CPROVER_is_fresh(WV_BG, sizeof(buffergroup)) && __CPROVER_is_fresh(WV_BG->buflst, sizeof(iobuffer) * WV_TSZ(this->THREADS_NUM)) &&
                   __CPROVER_is_fresh(WV_BG->ctrl, sizeof(bufferctrl) * WV_TSZ(this->THREADS_NUM)) && __CPROVER_is_fresh(WV_BG->fin, sizeof(wv_FILE)) &&
                   __CPROVER_is_fresh(WV_BG->fout, sizeof(wv_FILE)))
__CPROVER_requires(WV_BG->size == this->THREADS_NUM && WV_BG->turn == 0 && !WV_BG->over && WV_BG_EMPTY(WV_BG) && bufferctrl__live_num == this->THREADS_NUM)
__CPROVER_requires(WV_FILE_OPEN(WV_BG->fin) && WV_BG->fout->open && WV_BG->fout->pos == WV_BG->fout->len && WV_BG->fout->len < (1ull << 50) && wv_wcount < (1ull << 59))
__CPROVER_requires(__CPROVER_is_fresh(mode, sizeof(Aesmode *) * WV_TSZ(this->THREADS_NUM)) && WV_IOI(WV_BG) && !buffergroup__mtx.held && !WV_BG->fin->eof &&
                   WV_BG->fin->pos < (1ull << 50) && WV_BG->fin->len < (1ull << 50) && WV_BG->fout->nbytes < (1ull << 59) && wv_pg < 16 && wv_gk < 16 &&
                   (wv_gk < this->THREADS_NUM ==> !this->threads[wv_gk].started))   /* a fresh multicry_master: no thread object is running */
__CPROVER_assigns(WV_BG->turn, WV_BG->over, __CPROVER_object_whole(WV_BG->buflst), __CPROVER_object_whole(WV_BG->ctrl), bufferctrl__live_num,
                  WV_BG->fin->pos, WV_BG->fin->eof, WV_FILE_WSTATE(WV_BG->fout), WV_ARR(this->threads), wv_c, wv_b, wv_steps, wv_pl.notified_ready, wv_pl.notified_update, wv_worker_mask)
/* [C14] a worker started in slot i works on buffer i with stream object i, [C04] and every worker started is joined before the run
   returns.  (That every buffer which receives a chunk has a worker is the liveness side of C04 and not stated here.) */
__CPROVER_ensures((wv_gk < this->THREADS_NUM && this->threads[wv_gk].started) ==> (this->threads[wv_gk].joined && this->threads[wv_gk].arg == wv_gk &&
                                                                                    this->threads[wv_gk].obj == (void *)mode[wv_gk]))
/* everything is consumed, every buffer is retired */
__CPROVER_ensures(bufferctrl__live_num == 0 && WV_BG->fin->pos >= WV_BG->fin->len)
/* encryption appends exactly 16*(floor(n/16)+1) bytes, each output offset written exactly once */
__CPROVER_ensures(WV_BG->ispadding ==> (WV_BG->fout->pos == __CPROVER_old(WV_BG->fout->pos) + WV_ENC_OUT_OLD && WV_BG->fout->len == WV_BG->fout->pos &&
                                        WV_BG->fout->nbytes == __CPROVER_old(WV_BG->fout->nbytes) + WV_ENC_OUT_OLD))
/* decryption appends at most the body length (and nothing at all for an empty body) */
__CPROVER_ensures(!WV_BG->ispadding ==> (WV_BG->fout->nbytes - __CPROVER_old(WV_BG->fout->nbytes) <= (WV_PIPE_N_OLD) &&
                                         WV_BG->fout->pos == __CPROVER_old(WV_BG->fout->pos) + (WV_BG->fout->nbytes - __CPROVER_old(WV_BG->fout->nbytes)) &&
                                         WV_BG->fout->len == WV_BG->fout->pos))
/* every write is an append at or after the old end of the output: nothing before it is touched */
__CPROVER_ensures((wv_wP < __CPROVER_old(WV_BG->fout->pos) || wv_wP >= WV_BG->fout->pos) ==> (wv_wcount == __CPROVER_old(wv_wcount) && wv_wbyte == __CPROVER_old(wv_wbyte)))
__CPROVER_ensures((wv_wP >= __CPROVER_old(WV_BG->fout->pos) && wv_wP < WV_BG->fout->pos) ==> wv_wcount == __CPROVER_old(wv_wcount) + 1)
__CPROVER_ensures(WV_BG->fout->open && WV_BG->fin->open);

/* ====================================================================================================================
   Part 2: thread-modular ownership protocol (P-E).  Buffer i has a state token ctrl[i].state:
     EMPTY, UPDATING : owned by the I/O thread (it may load, export, publish READY or retire to INV)
     READY           : owned by worker i (it may take blocks in order and transform them, then hand back: READY -> UPDATING)
     INV             : retired, frozen, owned by nobody.
   Each side's code is proved against every behaviour the protocol allows the other side (the rely), folded into the contract
   of cv.wait, the only place where a thread lets go of the lock while it depends on the shared state. */
/* the harnesses of this part allocate the objects themselves and point the ghosts wv_c / wv_b at them (a pointer that a contract
   only assumes equal to another cannot be dereferenced by CBMC), so the contracts ask for validity, not freshness */
#define WV_PAIR_FRESH (__CPROVER_rw_ok(wv_c, sizeof(bufferctrl)) && __CPROVER_rw_ok(wv_b, sizeof(iobuffer)))
#define WV_B_SAME (wv_b->now == __CPROVER_old(wv_b->now) && wv_b->total == __CPROVER_old(wv_b->total) && wv_b->tail == __CPROVER_old(wv_b->tail) && \
  wv_b->isfinal == __CPROVER_old(wv_b->isfinal))

/* condition_variable::wait(lock): releases the mutex, lets the environment run, re-acquires (spurious wake-ups included).
   Rely while a worker waits on cv_ready : an I/O-owned buffer may end up in any state; READY comes with a freshly loaded
                                           buffer (now == 0), INV with a consumed one (now == total);
                                           a worker-owned or retired buffer is not touched.
   Rely while the I/O thread waits on cv_update : a READY buffer may be consumed further (now grows up to total) and handed
                                           back (UPDATING only with now == total); anything else is not touched. */
void wv_cv_wait(wv_cv *cv, wv_mutex *m)
__CPROVER_requires(WV_PAIR_FRESH && (cv == &wv_c->cv_ready || cv == &wv_c->cv_update) && m == &wv_c->lock && m->held && WV_ST_OK(wv_c->state) && WV_B_OK(wv_b))
__CPROVER_assigns(wv_c->state, wv_b->now, wv_b->total, wv_b->tail, wv_b->isfinal, WV_ARR(wv_b->b))
__CPROVER_ensures(wv_c->lock.held && WV_ST_OK(wv_c->state) && WV_B_OK(wv_b))
__CPROVER_ensures((cv == &wv_c->cv_ready && !WV_IO_OWNED(__CPROVER_old(wv_c->state))) ==> (wv_c->state == __CPROVER_old(wv_c->state) && WV_B_SAME))
__CPROVER_ensures((cv == &wv_c->cv_ready && WV_IO_OWNED(__CPROVER_old(wv_c->state))) ==>
                  ((wv_c->state == READY ==> wv_b->now == 0) && (wv_c->state == INV ==> wv_b->now == wv_b->total)))
__CPROVER_ensures((cv == &wv_c->cv_update && __CPROVER_old(wv_c->state) != READY) ==> (wv_c->state == __CPROVER_old(wv_c->state) && WV_B_SAME))
__CPROVER_ensures((cv == &wv_c->cv_update && __CPROVER_old(wv_c->state) == READY) ==>
                  ((wv_c->state == READY || wv_c->state == UPDATING) && wv_b->now >= __CPROVER_old(wv_b->now) && wv_b->total == __CPROVER_old(wv_b->total) &&
                   wv_b->tail == __CPROVER_old(wv_b->tail) && wv_b->isfinal == __CPROVER_old(wv_b->isfinal) && (wv_c->state == UPDATING ==> wv_b->now == wv_b->total)));

void wv_cv_notify_all(wv_cv *cv)
__CPROVER_requires(WV_PAIR_FRESH && (cv == &wv_c->cv_ready || cv == &wv_c->cv_update))
__CPROVER_assigns(wv_pl.notified_ready, wv_pl.notified_update)
__CPROVER_ensures(cv == &wv_c->cv_ready ? (wv_pl.notified_ready && wv_pl.notified_update == __CPROVER_old(wv_pl.notified_update))
                                        : (wv_pl.notified_update && wv_pl.notified_ready == __CPROVER_old(wv_pl.notified_ready)));

bool bufferctrl__cmpstate(bufferctrl *this, const enum bufstate_t state)
__CPROVER_requires(__CPROVER_rw_ok(this, sizeof(*this)))
__CPROVER_assigns()
__CPROVER_ensures(__CPROVER_return_value == (this->state == state));

/* [C04 lemma 1] the wait loops leave only with the awaited predicate, re-tested under the lock */
void bufferctrl__wait_ready(bufferctrl *this)
__CPROVER_requires(WV_PAIR_FRESH && this == wv_c && !this->lock.held && WV_ST_OK(this->state) && WV_B_OK(wv_b))
__CPROVER_assigns(this->state, this->lock.held, wv_b->now, wv_b->total, wv_b->tail, wv_b->isfinal, WV_ARR(wv_b->b))
__CPROVER_ensures((this->state == READY || this->state == INV) && !this->lock.held && WV_B_OK(wv_b))
__CPROVER_ensures(!WV_IO_OWNED(__CPROVER_old(this->state)) ==> (this->state == __CPROVER_old(this->state) && WV_B_SAME))
__CPROVER_ensures(WV_IO_OWNED(__CPROVER_old(this->state)) ==> ((this->state == READY ==> wv_b->now == 0) && (this->state == INV ==> wv_b->now == wv_b->total)));

void bufferctrl__wait_update(bufferctrl *this)
__CPROVER_requires(WV_PAIR_FRESH && this == wv_c && !this->lock.held && WV_ST_OK(this->state) && this->state != INV && WV_B_OK(wv_b))
__CPROVER_assigns(this->state, this->lock.held, wv_b->now, wv_b->total, wv_b->tail, wv_b->isfinal, WV_ARR(wv_b->b))
__CPROVER_ensures(WV_IO_OWNED(this->state) && !this->lock.held && WV_B_OK(wv_b))
__CPROVER_ensures(__CPROVER_old(this->state) != READY ==> (this->state == __CPROVER_old(this->state) && WV_B_SAME))
__CPROVER_ensures(__CPROVER_old(this->state) == READY ==> (this->state == UPDATING && wv_b->now == wv_b->total && wv_b->total == __CPROVER_old(wv_b->total) &&
                  wv_b->tail == __CPROVER_old(wv_b->tail) && wv_b->isfinal == __CPROVER_old(wv_b->isfinal)));

/* [C14] only the I/O thread publishes a buffer, and only one it owns;    [C04 lemma 2] the waiters on cv_ready are notified after the change, under the lock */
void bufferctrl__set_ready(bufferctrl *this, bool load)
__CPROVER_requires(WV_PAIR_FRESH && this == wv_c && !this->lock.held && WV_IO_OWNED(this->state) && WV_B_OK(wv_b) && bufferctrl__live_num >= 1)
__CPROVER_requires(load ? wv_b->now == 0 : wv_b->now == wv_b->total)
__CPROVER_assigns(this->state, this->lock.held, bufferctrl__live_num, wv_pl.notified_ready, wv_pl.notified_update)
__CPROVER_ensures(this->state == (load ? READY : INV) && !this->lock.held && wv_pl.notified_ready)
__CPROVER_ensures(bufferctrl__live_num == __CPROVER_old(bufferctrl__live_num) - (load ? 0 : 1));

/* [C14] only the owner hands a buffer back, [C03] and only when every block has been taken; [C04 lemma 2] notify after the change */
void bufferctrl__set_update(bufferctrl *this)
__CPROVER_requires(WV_PAIR_FRESH && this == wv_c && !this->lock.held && (this->state == READY || this->state == INV) && WV_B_OK(wv_b))
__CPROVER_requires(this->state == READY ==> wv_b->now == wv_b->total)
__CPROVER_assigns(this->state, this->lock.held, wv_pl.notified_ready, wv_pl.notified_update)
__CPROVER_ensures(!this->lock.held && (__CPROVER_old(this->state) == READY ? (this->state == UPDATING && wv_pl.notified_update) : this->state == INV));

/* [C14] a worker looks into a buffer only while it owns it (READY) or after it was retired (INV, frozen);
   [C03] the blocks of a load are handed out one by one, in order */
u8_t *iobuffer__get_entry(iobuffer *this)
__CPROVER_requires(WV_PAIR_FRESH && this == wv_b && (wv_c->state == READY || wv_c->state == INV) && WV_B_OK(this))
__CPROVER_assigns(this->now)
__CPROVER_ensures(__CPROVER_old(this->now) < this->total ? (__CPROVER_return_value == this->b[__CPROVER_old(this->now)] && this->now == __CPROVER_old(this->now) + 1)
                                                         : (__CPROVER_return_value == NULL && this->now == __CPROVER_old(this->now)));

/* worker loop invariant WV_WORKER_INV (wv_ghost.h): between two calls the buffer is the worker's (READY) or retired (INV, consumed) */
u8_t *buffergroup__require_buffer_entry(buffergroup *this, const u8_t id)
__CPROVER_requires(__CPROVER_rw_ok(this, sizeof(*this)) && WV_PAIR_FRESH && id < 16 && wv_b == &this->buflst[id] && wv_c == &this->ctrl[id] && WV_WORKER_INV)
__CPROVER_requires(1)
__CPROVER_assigns(wv_c->state, wv_c->lock.held, wv_b->now, wv_b->total, wv_b->tail, wv_b->isfinal, WV_ARR(wv_b->b), wv_pl)
__CPROVER_ensures(WV_WORKER_INV)
/* [C04 lemma 3] the worker is told "no more blocks" only when its buffer has been retired */
__CPROVER_ensures(__CPROVER_return_value == NULL ==> (wv_c->state == INV && wv_pl.entries == __CPROVER_old(wv_pl.entries)))
/* [C03] otherwise it gets the next block of the current load: the one after the previous block, or block 0 of a fresh load */
__CPROVER_ensures(__CPROVER_return_value != NULL ==> (wv_c->state == READY && wv_b->now >= 1 && __CPROVER_return_value == wv_b->b[wv_b->now - 1] &&
                  wv_pl.entries == __CPROVER_old(wv_pl.entries) + 1 && wv_pl.last_entry == __CPROVER_return_value))
__CPROVER_ensures((__CPROVER_return_value != NULL && __CPROVER_old(wv_b->now) < __CPROVER_old(wv_b->total)) ==>
                  (wv_b->now == __CPROVER_old(wv_b->now) + 1 && wv_b->total == __CPROVER_old(wv_b->total)))
__CPROVER_ensures((__CPROVER_return_value != NULL && __CPROVER_old(wv_b->now) >= __CPROVER_old(wv_b->total)) ==> wv_b->now == 1)
__CPROVER_ensures(wv_pl.runs == __CPROVER_old(wv_pl.runs) && wv_pl.order_ok == __CPROVER_old(wv_pl.order_ok) && wv_pl.last_run == __CPROVER_old(wv_pl.last_run) &&
                  wv_pl.last_mode == __CPROVER_old(wv_pl.last_mode));

void buffergroup__wait_buffer(buffergroup *this, const u8_t id)
__CPROVER_requires(__CPROVER_rw_ok(this, sizeof(*this)) && WV_PAIR_FRESH && id < 16 && wv_c == &this->ctrl[id] && !wv_c->lock.held && WV_ST_OK(wv_c->state) && WV_B_OK(wv_b))
__CPROVER_requires(!WV_IO_OWNED(wv_c->state) ==> (wv_c->state == INV ==> wv_b->now == wv_b->total))
__CPROVER_assigns(wv_c->state, wv_c->lock.held, wv_b->now, wv_b->total, wv_b->tail, wv_b->isfinal, WV_ARR(wv_b->b))
__CPROVER_ensures(WV_WORKER_INV);

/* one stream step through the virtual call (R5 dispatcher over the eight stream classes): what the worker relies on is that
   the dynamic type is kept and that only the block and the stream object are written.  (WV_RUNCRY_LIGHT: the worker proof does
   not track block contents, and a store through a pointer that a replaced contract only assumes equal to &b[now-1] is what CBMC
   cannot resolve, so there the frame lists the stream object only; the worker's own frame covers the whole buffer.) */
#ifdef WV_RUNCRY_LIGHT
#define WV_RUNCRY_BLOCK_FRAME
#define WV_RUNCRY_BLOCK_OK(b) ((b) != NULL)
#else
#define WV_RUNCRY_BLOCK_FRAME __CPROVER_object_upto(block, 16),
#define WV_RUNCRY_BLOCK_OK(b) __CPROVER_rw_ok(b, 16)
#endif
void Aesmode__runcry(Aesmode *this, u8_t *block)
__CPROVER_requires(__CPROVER_rw_ok(this, sizeof(AesEncrypt)) && WV_TAG_OF(this) >= WV_TAG_AesECB_Enc && WV_TAG_OF(this) <= WV_TAG_AesOFB && WV_RUNCRY_BLOCK_OK(block))
__CPROVER_assigns(WV_RUNCRY_BLOCK_FRAME __CPROVER_object_whole(this))
__CPROVER_ensures(WV_TAG_OF(this) == __CPROVER_old(WV_TAG_OF(this)));

/* the worker thread: waits for its buffer, then every block it is handed is transformed exactly once, at once (before the next
   one is requested), by the stream object it was started with; it leaves only when its buffer has been retired */
void multiruncrypt_file(u8_t id, Aesmode *mode)
__CPROVER_requires(__CPROVER_rw_ok(buffergroup__instance, sizeof(buffergroup)) && WV_PAIR_FRESH && id < 16 && wv_b == &buffergroup__instance->buflst[id] &&
                   wv_c == &buffergroup__instance->ctrl[id] && !wv_c->lock.held && WV_ST_OK(wv_c->state) && WV_B_OK(wv_b) && (wv_c->state == INV ==> wv_b->now == wv_b->total))
__CPROVER_requires(__CPROVER_rw_ok(mode, sizeof(AesEncrypt)) && WV_TAG_OF(mode) >= WV_TAG_AesECB_Enc && WV_TAG_OF(mode) <= WV_TAG_AesOFB &&
                   wv_pl.entries == 0 && wv_pl.runs == 0 && wv_pl.order_ok && !buffergroup__mtx.held)
__CPROVER_assigns(wv_c->state, wv_c->lock.held, wv_b->now, wv_b->total, wv_b->tail, wv_b->isfinal, WV_ARR(wv_b->b), wv_pl, __CPROVER_object_whole(mode))
__CPROVER_ensures(wv_c->state == INV && wv_pl.runs == wv_pl.entries && wv_pl.order_ok && (wv_pl.runs > 0 ==> wv_pl.last_mode == mode));

/* ====================================================================================================================
   Part 3: the I/O thread's side.  Chunk size: iobuffer__sum bytes = iobuffer__BUF_SZ blocks (proof-build values, DESIGN.md 2.4). */
#define WV_FILE_VALID(f) (__CPROVER_rw_ok(f, sizeof(wv_FILE)) && WV_FILE_OPEN(f))
#define WV_AVAIL0(f) (__CPROVER_old((f)->pos) <= __CPROVER_old((f)->len) ? __CPROVER_old((f)->len) - __CPROVER_old((f)->pos) : 0ull)
#define WV_LOAD0(f) (WV_AVAIL0(f) >= iobuffer__sum ? (u32_t)iobuffer__sum : (u32_t)WV_AVAIL0(f))

/* [C14] the I/O thread refills a buffer only while it owns it.
   Encryption side [C02]: chunk of up to `sum` bytes; a short (or empty) chunk is the last one and gets PKCS#7 padding
   16 - (load mod 16) in 1..16, one block more.  Decryption side [C01]: FINAL iff something was read and the input is then
   exhausted; NODATA iff nothing was read; the position advances by exactly the bytes loaded. */
loadstate_t iobuffer__load_buffer(iobuffer *this, FILE *fin, bool ispadding)
__CPROVER_requires(WV_PAIR_FRESH && this == wv_b && WV_IO_OWNED(wv_c->state) && WV_FILE_VALID(fin) && !fin->eof && wv_pg < 16)
__CPROVER_assigns(WV_ARR(this->b), this->total, this->now, this->tail, this->isfinal, fin->pos, fin->eof)
__CPROVER_ensures(fin->pos == __CPROVER_old(fin->pos) + WV_LOAD0(fin) && this->now == 0 && this->tail == (WV_LOAD0(fin) & 15) && WV_B_OK(this))
__CPROVER_ensures(ispadding ==> (WV_LOAD0(fin) != iobuffer__sum ?
                  (__CPROVER_return_value == FINAL && this->isfinal && this->total == (WV_LOAD0(fin) >> 4) + 1 &&
                   (wv_pg >= this->tail ==> this->b[this->total - 1][wv_pg] == 16 - this->tail)) :
                  (__CPROVER_return_value == FULL && this->isfinal == __CPROVER_old(this->isfinal) && this->total == iobuffer__BUF_SZ)))
__CPROVER_ensures(!ispadding ==> (this->total == (WV_LOAD0(fin) >> 4) &&
                  (__CPROVER_return_value == NODATA) == (WV_LOAD0(fin) == 0) &&
                  (__CPROVER_return_value == FINAL) == (WV_LOAD0(fin) != 0 && WV_AVAIL0(fin) <= iobuffer__sum) &&
                  (__CPROVER_return_value == FINAL ? this->isfinal : this->isfinal == __CPROVER_old(this->isfinal))))
__CPROVER_ensures(__CPROVER_return_value == FULL || __CPROVER_return_value == FINAL || __CPROVER_return_value == NODATA)
/* the end-of-file indicator stays clear as long as chunks are FULL (the next load may rely on it) */
__CPROVER_ensures(__CPROVER_return_value == FULL ==> !fin->eof);

/* [C14] the I/O thread flushes a buffer only after the worker handed it back (UPDATING), [C03] fully consumed.
   One write at the output position: a full chunk, or for the last chunk the blocks taken minus (decryption) the pad length
   found in the last byte, which is bounded by the block size; never more than 16 * now bytes [C11]. */
#define WV_PADLEN(ib) ((ib)->now == 0 ? 0 : ((ib)->b[(ib)->now - 1][15] > 16 ? 16 : (ib)->b[(ib)->now - 1][15]))
#define WV_EXPORT_LEN(ib, ispadding) ((ib)->isfinal ? ((ib)->now << 4) - ((ispadding) ? 0 : WV_PADLEN(ib)) : (u32_t)iobuffer__sum)
void iobuffer__export_buffer(iobuffer *this, FILE *fout, bool ispadding)
__CPROVER_requires(WV_PAIR_FRESH && this == wv_b && wv_c->state == UPDATING && WV_B_OK(this) && this->now == this->total && (!this->isfinal ==> this->total == iobuffer__BUF_SZ))
__CPROVER_requires(__CPROVER_rw_ok(fout, sizeof(wv_FILE)) && fout->open && fout->pos < (1ull << 59) && fout->len < (1ull << 59) && wv_wcount < (1ull << 60))
__CPROVER_assigns(WV_FILE_WSTATE(fout))
__CPROVER_ensures(fout->nwrites == __CPROVER_old(fout->nwrites) + 1 && fout->last_woff == __CPROVER_old(fout->pos) && fout->last_wlen == WV_EXPORT_LEN(this, ispadding))
__CPROVER_ensures(fout->pos == __CPROVER_old(fout->pos) + WV_EXPORT_LEN(this, ispadding) && fout->nbytes == __CPROVER_old(fout->nbytes) + WV_EXPORT_LEN(this, ispadding))
__CPROVER_ensures(WV_EXPORT_LEN(this, ispadding) <= (this->now << 4) && fout->open)
__CPROVER_ensures(fout->len == (fout->pos > __CPROVER_old(fout->len) ? fout->pos : __CPROVER_old(fout->len)))
__CPROVER_ensures((wv_wP >= __CPROVER_old(fout->pos) && wv_wP < fout->pos) ? wv_wcount == __CPROVER_old(wv_wcount) + 1
                                                                           : (wv_wcount == __CPROVER_old(wv_wcount) && wv_wbyte == __CPROVER_old(wv_wbyte)));

/* one turn of the I/O thread on the buffer it has just waited for.  [C14] it acts only on a buffer it owns (EMPTY / UPDATING);
   [C03] a handed-back buffer is flushed exactly once, before it is refilled; [C04 lemma 6] once the input is exhausted (`over`)
   every visited buffer is retired (INV) and the end of input is noticed by the first chunk that is not FULL */
#define WV_TURN_C(g) ((g)->ctrl[(g)->turn])
#define WV_TURN_B(g) ((g)->buflst[(g)->turn])
void buffergroup__buffer_update(buffergroup *this)
__CPROVER_requires(__CPROVER_rw_ok(this, sizeof(*this)) && WV_PAIR_FRESH && this->turn < 16 && wv_c == &this->ctrl[this->turn] && wv_b == &this->buflst[this->turn])
__CPROVER_requires(WV_IO_OWNED(wv_c->state) && !wv_c->lock.held && WV_B_OK(wv_b) && bufferctrl__live_num >= 1 && wv_pg < 16 && wv_wcount < (1ull << 60))
__CPROVER_requires(wv_b->now == wv_b->total && (wv_c->state == UPDATING ==> (!wv_b->isfinal ==> wv_b->total == iobuffer__BUF_SZ)))
__CPROVER_requires(WV_FILE_VALID(this->fin) && (!this->over ==> !this->fin->eof) && __CPROVER_rw_ok(this->fout, sizeof(wv_FILE)) && this->fout->open &&
                   this->fout->pos < (1ull << 58) && this->fout->len < (1ull << 58))
__CPROVER_assigns(this->over, wv_c->state, wv_c->lock.held, WV_ARR(wv_b->b), wv_b->total, wv_b->now, wv_b->tail, wv_b->isfinal, this->fin->pos, this->fin->eof,
                  WV_FILE_WSTATE(this->fout), bufferctrl__live_num, wv_pl.notified_ready, wv_pl.notified_update)
/* flush: exactly when the buffer was handed back */
__CPROVER_ensures(__CPROVER_old(wv_c->state) == UPDATING ? this->fout->nwrites == __CPROVER_old(this->fout->nwrites) + 1
                                                         : (this->fout->nwrites == __CPROVER_old(this->fout->nwrites) && this->fout->nbytes == __CPROVER_old(this->fout->nbytes)))
__CPROVER_ensures(this->fout->nbytes - __CPROVER_old(this->fout->nbytes) <= iobuffer__sum && this->fout->pos == __CPROVER_old(this->fout->pos) + (this->fout->nbytes - __CPROVER_old(this->fout->nbytes)))
/* refill: only while the input is not exhausted; `over` is raised by the first load that is not FULL and stays raised */
__CPROVER_ensures(__CPROVER_old(this->over) ==> (this->over && this->fin->pos == __CPROVER_old(this->fin->pos) && wv_c->state == INV))
__CPROVER_ensures(!__CPROVER_old(this->over) ==> (this->fin->pos == __CPROVER_old(this->fin->pos) + WV_LOAD0(this->fin) && this->over == (WV_AVAIL0(this->fin) <= (this->ispadding ? iobuffer__sum - 1 : iobuffer__sum))))
/* publication: READY with a non-empty fresh load, INV otherwise (one live buffer less) */
__CPROVER_ensures((wv_c->state == READY || wv_c->state == INV) && !wv_c->lock.held && wv_pl.notified_ready && WV_B_OK(wv_b))
__CPROVER_ensures(wv_c->state == READY ==> (wv_b->now == 0 && (!wv_b->isfinal ==> wv_b->total == iobuffer__BUF_SZ)))
__CPROVER_ensures(wv_c->state == INV ==> wv_b->now == wv_b->total)
__CPROVER_ensures(bufferctrl__live_num == __CPROVER_old(bufferctrl__live_num) - (wv_c->state == INV ? 1 : 0) && (!this->over ==> !this->fin->eof))
/* accounting [C11, C02]: a flush writes at most the 16 * total bytes the buffer held; a published load holds at most the bytes just
   read, plus one padding block for the last chunk of an encryption; a buffer is retired only once the input is exhausted */
__CPROVER_ensures(this->fout->nbytes - __CPROVER_old(this->fout->nbytes) <= ((unsigned long long)__CPROVER_old(wv_b->total) << 4))
__CPROVER_ensures((wv_c->state == READY && !__CPROVER_old(this->over)) ==> ((unsigned long long)wv_b->total << 4) <= WV_LOAD0(this->fin) + ((this->ispadding && this->over) ? 16 : 0))
/* encryption side, exactly [C02]: a flush writes all 16 * total bytes; a load is published always, a FULL chunk as it is, the last
   chunk rounded down to whole blocks plus the padding block */
__CPROVER_ensures(this->ispadding ==> this->fout->nbytes - __CPROVER_old(this->fout->nbytes) == (__CPROVER_old(wv_c->state) == UPDATING ? ((unsigned long long)__CPROVER_old(wv_b->total) << 4) : 0ull))
__CPROVER_ensures((this->ispadding && !__CPROVER_old(this->over)) ==> (wv_c->state == READY && (this->over ? ((unsigned long long)wv_b->total << 4) == (WV_LOAD0(this->fin) & ~15ull) + 16
                                                                                                                    : (((unsigned long long)wv_b->total << 4) == iobuffer__sum && WV_LOAD0(this->fin) == iobuffer__sum))))
__CPROVER_ensures((wv_c->state == INV ==> this->over) && ((this->over && !__CPROVER_old(this->over)) ==> this->fin->pos >= this->fin->len) && this->fin->open)
/* [C03] output is appended: one write at the old position, every offset of it written once */
__CPROVER_ensures(this->fout->open && (__CPROVER_old(this->fout->pos) == __CPROVER_old(this->fout->len) ==> this->fout->len == this->fout->pos))
__CPROVER_ensures((wv_wP >= __CPROVER_old(this->fout->pos) && wv_wP < this->fout->pos) ? wv_wcount == __CPROVER_old(wv_wcount) + 1
                                                                                     : (wv_wcount == __CPROVER_old(wv_wcount) && wv_wbyte == __CPROVER_old(wv_wbyte)));

/* [C04 lemma 5] the turn moves to the next buffer that is not retired; false exactly when every buffer is retired */
bool buffergroup__turn_iter(buffergroup *this)
__CPROVER_requires(__CPROVER_rw_ok(this, sizeof(*this)) && this->size >= 1 && this->size <= 16 && this->turn < this->size && __CPROVER_rw_ok(this->ctrl, sizeof(bufferctrl) * WV_TSZ(this->size)))
__CPROVER_requires(bufferctrl__live_num == WV_COUNT_LIVE(this))
__CPROVER_assigns(this->turn, wv_steps)
__CPROVER_ensures(__CPROVER_return_value == (bufferctrl__live_num != 0) && this->turn < this->size)
__CPROVER_ensures(__CPROVER_return_value ? this->ctrl[this->turn].state != INV : this->turn == __CPROVER_old(this->turn));

/* [C04 lemma 5] the turn moves ... (above).  ---- the I/O thread's loop ----
   The rely applied at the head of every turn, to every buffer: the worker that owns a READY buffer may have taken further blocks
   (now grows up to total), transformed them in place (contents arbitrary), and - having taken all - handed the buffer back. */
void wv_rely_workers(buffergroup *g)
{
  for (unsigned j = 0; j < 16; j++)
    if (j < g->size && g->ctrl[j].state == READY)
    {
      u32_t n; _Bool back;   /* (block contents are also the worker's to change; no fact of the I/O loop mentions them) */
      __CPROVER_assume(n >= g->buflst[j].now && n <= g->buflst[j].total);
      g->buflst[j].now = n;
      if (back && n == g->buflst[j].total)
        g->ctrl[j].state = UPDATING;
    }
}

/* run_buffer under that rely: [C14] every step the I/O thread takes on a buffer is taken while it owns it (the callees' preconditions);
   [C04] it leaves when every buffer is retired, and each turn either loads input, or notices its end, or retires a buffer;
   [C11] never more bytes written than were read (plus the one padding block on the encryption side); [C03] output is appended,
   every output offset written once. */
void buffergroup__run_buffer(buffergroup *this)
__CPROVER_requires(__CPROVER_rw_ok(this, sizeof(*this)) && this->size >= 1 && this->size <= 16 && WV_T_IS(this->size) && this->turn == 0 && !this->over)
__CPROVER_requires(__CPROVER_rw_ok(this->ctrl, sizeof(bufferctrl) * WV_TSZ(this->size)) && __CPROVER_rw_ok(this->buflst, sizeof(iobuffer) * WV_TSZ(this->size)) && WV_BG_EMPTY(this) && WV_IOI(this))
/* [C04 lemma 8] every buffer has a worker thread: a buffer published READY without one would never be handed back */
__CPROVER_requires(WV_ALL_WORKERS(this->size))
__CPROVER_requires(bufferctrl__live_num == this->size && WV_FILE_VALID(this->fin) && !this->fin->eof && __CPROVER_rw_ok(this->fout, sizeof(wv_FILE)) && this->fout->open &&
                   this->fout->pos == this->fout->len && this->fout->len < (1ull << 50) && this->fin->len < (1ull << 50) && this->fin->pos < (1ull << 50) && this->fout->nbytes < (1ull << 59) && wv_wcount < (1ull << 59) && wv_pg < 16)
__CPROVER_assigns(WV_IO_LOOP_FRAME(this))
__CPROVER_ensures(bufferctrl__live_num == 0 && this->over && this->fin->pos >= this->fin->len)
__CPROVER_ensures(this->fout->nbytes - __CPROVER_old(this->fout->nbytes) <= (this->fin->pos - __CPROVER_old(this->fin->pos)) + (this->ispadding ? 16 : 0))
__CPROVER_ensures(this->fin->pos >= __CPROVER_old(this->fin->pos) && this->fin->pos <= (__CPROVER_old(this->fin->pos) > this->fin->len ? __CPROVER_old(this->fin->pos) : this->fin->len))
/* [C02] encryption writes exactly the whole blocks of the input plus one padding block */
__CPROVER_ensures(this->ispadding ==> this->fout->nbytes - __CPROVER_old(this->fout->nbytes) == ((this->fin->pos - __CPROVER_old(this->fin->pos)) & ~15ull) + 16)
__CPROVER_ensures(this->fout->pos == __CPROVER_old(this->fout->pos) + (this->fout->nbytes - __CPROVER_old(this->fout->nbytes)) && this->fout->len == this->fout->pos)
__CPROVER_ensures((wv_wP >= __CPROVER_old(this->fout->pos) && wv_wP < this->fout->pos) ? wv_wcount == __CPROVER_old(wv_wcount) + 1
                                                                                     : (wv_wcount == __CPROVER_old(wv_wcount) && wv_wbyte == __CPROVER_old(wv_wbyte)))
__CPROVER_ensures(this->fout->open && this->fin->open);
#endif

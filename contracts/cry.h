/* Contracts for kernel/cry.cpp (class runcrypt) and the set-up / tear-down half of the pipeline
   (C02, C05, C06, C11, C12, C13, C15, C18).  The concurrent half (workers, I/O loop) is in pipeline.h. */
#ifndef WV_C_CRY_H
#define WV_C_CRY_H
#include "fheader.h"
#include "aesmode.h"

/* The number of worker threads T (1..16) sizes three heap arrays.  CBMC 6.11 crashes or runs out of memory on heap objects of
   symbolic size in these proofs (measured), so the obligations that involve them are run once per value of T with the size as a
   constant: WV_T_FIX.  The contracts then also require T == WV_T_FIX. */
#ifdef WV_T_FIX
#define WV_TSZ(x) WV_T_FIX
#define WV_T_IS(x) ((x) == WV_T_FIX)
#else
#define WV_TSZ(x) (x)
#define WV_T_IS(x) 1
#endif
/* ---------------- process-global state (C15): nothing survives an operation */
#define WV_FRESH_STATE (buffergroup__instance == NULL && bufferctrl__live_num == 0)
/* a configured pipeline instance: T buffers, all EMPTY and owned by the I/O thread, nothing loaded, not finished */
#define WV_BG_EMPTY1(g, j) ((j) >= (g)->size || ((g)->ctrl[j].state == EMPTY && (g)->buflst[j].total == 0 && (g)->buflst[j].now == 0 && \
  (g)->buflst[j].tail == 0 && !(g)->buflst[j].isfinal))
#define WV_BG_EMPTY(g) WV_FOLD16(WV_BG_EMPTY1, &&, g)
#define WV_BG_CONFIGURED(g, T, fi, fo, pad) ((g)->size == (T) && (g)->fin == (fi) && (g)->fout == (fo) && (g)->ispadding == (pad) && (g)->turn == 0 && !(g)->over)

buffergroup *buffergroup__get_instance(void)
__CPROVER_requires(!buffergroup__mtx.held)
__CPROVER_assigns(buffergroup__instance, buffergroup__mtx)
__CPROVER_ensures(__CPROVER_return_value == buffergroup__instance && buffergroup__instance != NULL && !buffergroup__mtx.held)
__CPROVER_ensures(__CPROVER_old(buffergroup__instance) != NULL ==> buffergroup__instance == __CPROVER_old(buffergroup__instance))
__CPROVER_ensures(__CPROVER_old(buffergroup__instance) == NULL ==> (__CPROVER_is_fresh(buffergroup__instance, sizeof(buffergroup)) &&
  buffergroup__instance->buflst == NULL && buffergroup__instance->ctrl == NULL && buffergroup__instance->turn == 0 && !buffergroup__instance->over));

void buffergroup__set_buffergroup(buffergroup *this, u32_t size, FILE *fin, FILE *fout, bool ispadding)
__CPROVER_requires(__CPROVER_is_fresh(this, sizeof(*this)) && size >= 1 && size <= 16 && WV_T_IS(size) && bufferctrl__live_num == 0)
__CPROVER_assigns(this->size, this->fin, this->fout, this->ispadding, this->buflst, this->ctrl, bufferctrl__live_num)
__CPROVER_ensures(this->size == size && this->fin == fin && this->fout == fout && this->ispadding == ispadding)
__CPROVER_ensures(__CPROVER_is_fresh(this->buflst, sizeof(iobuffer) * WV_TSZ(size)) && __CPROVER_is_fresh(this->ctrl, sizeof(bufferctrl) * WV_TSZ(size)))
__CPROVER_ensures(bufferctrl__live_num == size && WV_BG_EMPTY(this));

/* (called with an instance: after every pipeline run; the NULL case is the obligation bg_del_instance_null, a harness) */
void buffergroup__del_instance(void)
__CPROVER_requires(!buffergroup__mtx.held && __CPROVER_is_fresh(buffergroup__instance, sizeof(buffergroup)) && WV_T_IS(buffergroup__instance->size) &&
  __CPROVER_is_fresh(buffergroup__instance->buflst, sizeof(iobuffer) * WV_TSZ(buffergroup__instance->size)) &&
  __CPROVER_is_fresh(buffergroup__instance->ctrl, sizeof(bufferctrl) * WV_TSZ(buffergroup__instance->size)))
__CPROVER_assigns(buffergroup__instance, buffergroup__mtx)
__CPROVER_frees(buffergroup__instance, buffergroup__instance->buflst, buffergroup__instance->ctrl)
__CPROVER_ensures(buffergroup__instance == NULL && !buffergroup__mtx.held);

/* ---------------- runcrypt object: the members that duplicate the constructor arguments agree */
#define WV_RC_OK(rc) ((rc)->header.fp == (rc)->fin && (rc)->header.out == (rc)->out && (rc)->header.key == (rc)->key && (rc)->header.num == (rc)->threads_num && \
  (rc)->aesfactory.key == (rc)->key && (rc)->crym.THREADS_NUM == (rc)->threads_num && (rc)->threads_num >= 1 && (rc)->threads_num <= 16 && WV_T_IS((rc)->threads_num))
/* (is_fresh assigns the pointer when a contract is assumed, so the pointer equalities of WV_RC_OK come after all is_fresh calls) */
#define WV_RC_PTRS(rc) (__CPROVER_is_fresh(rc, sizeof(runcrypt)) && __CPROVER_is_fresh((rc)->fin, sizeof(wv_FILE)) && __CPROVER_is_fresh((rc)->key, 16))
#define WV_RC_CONS(rc) (WV_FILE_OPEN((rc)->fin) && WV_RC_OK(rc))
#define WV_RC_IN(rc) (WV_RC_PTRS(rc) && WV_RC_CONS(rc))
#define WV_GHOST_IN (wv_g < 64 && wv_gr < 16 && wv_hl_n < (1ull << 40) && wv_rP == 10 + (unsigned long long)wv_gr)
#define WV_FINB(rc, k) wv_filebyte((rc)->fin->id, k)
#define WV_FIN_MAGIC(rc) (WV_FINB(rc, 0) == 0xC3 && WV_FINB(rc, 1) == 0xA5 && WV_FINB(rc, 2) == 0xC3 && WV_FINB(rc, 3) == 0xA5 && \
  WV_FINB(rc, 4) == 0xC3 && WV_FINB(rc, 5) == 0xA5 && WV_FINB(rc, 6) == 0xC3 && WV_FINB(rc, 7) == 0xA5)
/* the part of the verdict that does not involve the tag: right magic (ghost wv_magic_ok, defined once below), known mode numbers
   (the header object's mode fields are the file's bytes 8 and 9), at least 74 bytes */
#define WV_HEADER_OK(rc) ((rc)->fin->len >= 74 && wv_magic_ok && (rc)->header.ctype <= 4 && (rc)->header.htype <= 2)
#define WV_VERIFY_STATE(rc) (rc)->header.ctype, (rc)->header.htype, WV_ARR((rc)->header.hash), (rc)->fin->pos, (rc)->fin->eof, \
  (rc)->hmachandle.length, (rc)->hmachandle.hmac_res, (rc)->hmachandle.buf, WV_HMAC_GHOSTS, wv_tagv, wv_magic_ok
#ifdef WV_OUT_NULL
#define WV_OUT_IN(rc) ((rc)->out == NULL)
#define WV_OUT_OPEN(rc)
#else
#define WV_OUT_IN(rc) (__CPROVER_is_fresh((rc)->out, sizeof(wv_FILE)) && (rc)->out->open)
#define WV_OUT_OPEN(rc) , (rc)->out->open
#endif

/* verify(): 0 iff the header is well-formed and every byte of the stored tag equals the HMAC (under the user's key and the file's
   hash mode) of the bytes [48, EOF); the mode bytes used afterwards are the file's bytes 8 and 9 */
u8_t runcrypt__verify(runcrypt *this, size_t fsize)
__CPROVER_requires(WV_RC_IN(this) && WV_GHOST_IN)
__CPROVER_assigns(WV_VERIFY_STATE(this))
__CPROVER_ensures(__CPROVER_return_value <= 4 && wv_magic_ok == (this->fin->len >= 8 && WV_FIN_MAGIC(this)))
__CPROVER_ensures((__CPROVER_return_value == 4) == !wv_magic_ok)
__CPROVER_ensures((wv_magic_ok && this->fin->len >= 10) ==> (this->header.ctype == WV_FINB(this, 8) && this->header.htype == WV_FINB(this, 9)))
__CPROVER_ensures((__CPROVER_return_value == 0 || __CPROVER_return_value == 2) == WV_HEADER_OK(this))
__CPROVER_ensures((__CPROVER_return_value == 0 || __CPROVER_return_value == 2) ==>
                  (this->header.hash[wv_gr] == WV_FINB(this, 10 + (unsigned long long)wv_gr) && wv_flen0 == this->fin->len - 48 && this->fin->pos == this->fin->len))
__CPROVER_ensures(WV_HEADER_OK(this) ==> ((__CPROVER_return_value == 0) == WV_TAGEQ(this->header.hash, WV_HLEN_OF_TYPE(this->header.htype))));

void runcrypt__over(runcrypt *this)
__CPROVER_requires(__CPROVER_is_fresh(this, sizeof(*this)) && __CPROVER_is_fresh(this->fin, sizeof(wv_FILE)) && this->fin->open && WV_OUT_IN(this))
__CPROVER_assigns(this->fin->open WV_OUT_OPEN(this));

/* verification: the verdict, no write to any file (frame), the process-global state is untouched */
bool runcrypt__execute_verify(runcrypt *this, size_t fsize)
__CPROVER_requires(WV_RC_PTRS(this) && WV_OUT_IN(this) && WV_RC_CONS(this) && WV_GHOST_IN)
__CPROVER_assigns(WV_VERIFY_STATE(this), this->fin->open WV_OUT_OPEN(this))
__CPROVER_ensures(wv_magic_ok == (this->fin->len >= 8 && WV_FIN_MAGIC(this)))
__CPROVER_ensures((wv_magic_ok && this->fin->len >= 10) ==> (this->header.ctype == WV_FINB(this, 8) && this->header.htype == WV_FINB(this, 9)))
__CPROVER_ensures(__CPROVER_return_value ==> WV_HEADER_OK(this))
__CPROVER_ensures(WV_HEADER_OK(this) ==> (__CPROVER_return_value == WV_TAGEQ(this->header.hash, WV_HLEN_OF_TYPE(this->header.htype))))
__CPROVER_ensures(WV_HEADER_OK(this) ==> (this->header.hash[wv_gr] == WV_FINB(this, 10 + (unsigned long long)wv_gr) && wv_flen0 == this->fin->len - 48));

/* ---------------- IV table and stream set-up */
u8_t *runcrypt__prepare_IV_2(runcrypt *this)
__CPROVER_requires(WV_RC_IN(this) && wv_gi < 320)
__CPROVER_assigns(this->fin->pos, this->fin->eof)
__CPROVER_ensures(__CPROVER_is_fresh(__CPROVER_return_value, 320))
__CPROVER_ensures((wv_rP == 48 + (unsigned long long)wv_gi && this->fin->len >= 48 + 20ull * this->threads_num && wv_gi < 20u * this->threads_num) ==>
                  __CPROVER_return_value[wv_gi] == WV_FINB(this, 48 + (unsigned long long)wv_gi));

u8_t *runcrypt__prepare_IV_1(runcrypt *this, const u8_t *r_buf)
__CPROVER_requires(WV_RC_PTRS(this) && __CPROVER_is_fresh(this->out, sizeof(wv_FILE)) && WV_RC_CONS(this) && this->out->open && this->out->pos < (1ull << 50) && this->out->len < (1ull << 50))
__CPROVER_requires(wv_slen < (1ull << 31) && __CPROVER_is_fresh(r_buf, wv_slen + 1) && r_buf[wv_slen] == 0 && wv_g < 64 && wv_gr < 20 && wv_hl_n < (1ull << 50) && wv_wcount < (1ull << 60))
__CPROVER_assigns(WV_FILE_WSTATE(this->out), wv_hl, wv_hl_out)
__CPROVER_ensures(__CPROVER_is_fresh(__CPROVER_return_value, 320) && wv_hl_out == __CPROVER_return_value + 20 * (this->threads_num - 1))
__CPROVER_ensures(wv_hl_n >= __CPROVER_old(wv_hl_n) && wv_hl_n <= __CPROVER_old(wv_hl_n) + (wv_slen >> 6) + 18)
__CPROVER_ensures(this->out->pos == __CPROVER_old(this->out->pos) + 48 + 20ull * this->threads_num && this->out->nwrites == __CPROVER_old(this->out->nwrites) + 4 + this->threads_num)
__CPROVER_ensures(this->out->nbytes == __CPROVER_old(this->out->nbytes) + 48 + 20ull * this->threads_num && this->out->open && this->out->len == (this->out->pos > __CPROVER_old(this->out->len) ? this->out->pos : __CPROVER_old(this->out->len)))
__CPROVER_ensures((wv_wP >= __CPROVER_old(this->out->pos) && wv_wP < __CPROVER_old(this->out->pos) + 48 + 20ull * this->threads_num) ?
                  (wv_wcount == __CPROVER_old(wv_wcount) + 1 && wv_wbyte == WV_HDR_BYTE(&this->header, __CPROVER_return_value, wv_wP - __CPROVER_old(this->out->pos))) :
                  (wv_wcount == __CPROVER_old(wv_wcount) && wv_wbyte == __CPROVER_old(wv_wbyte)));

/* the T stream objects; each is built from the user's key and 16 IV bytes.
   [C18] demands stream i to be built from IV i; the envelope tolerates exactly the recorded finding (every stream from IV 0). */
/* observed stream index: a constant of the obligation (a symbolic index into the array of stream pointers makes the obligation
   time out); the obligations are run for the first and the last stream */
#ifndef WV_GS_FIX
#define WV_GS_FIX 0
#endif
#define wv_gs WV_GS_FIX
Aesmode **runcrypt__prepare_AES(runcrypt *this, u8_t ctype, u8_t *iv, bool cmode)
__CPROVER_requires(WV_RC_PTRS(this) && __CPROVER_is_fresh(iv, 320) && WV_RC_CONS(this) && ctype <= 4 && WV_FRESH_STATE && wv_gs < this->threads_num)
__CPROVER_assigns(this->fin->pos, this->fin->eof, this->aesfactory.iv, buffergroup__instance, buffergroup__mtx, bufferctrl__live_num)
__CPROVER_ensures(!cmode ==> this->fin->pos == 48 + 20ull * this->threads_num)
/* (the instance set-up itself -- T empty buffers owned by the I/O thread -- is the contract of set_buffergroup; the callers'
   proofs run through the real code of this function, so it is not repeated here: measured, the 16-fold clause over freshly
   allocated arrays makes this obligation time out) */
__CPROVER_ensures(buffergroup__instance != NULL && WV_BG_CONFIGURED(buffergroup__instance, this->threads_num, this->fin, this->out, cmode) && bufferctrl__live_num == this->threads_num)
__CPROVER_ensures(__CPROVER_return_value != NULL)
__CPROVER_ensures(__CPROVER_return_value[wv_gs] != NULL && __CPROVER_return_value[wv_gs]->_wv_tag == WV_TAG_FOR(cmode, ctype) &&
                  WV_KEY16_EQ(WV_STREAM(__CPROVER_return_value, wv_gs)->crypt._base.key.init_key, this->key) && WV_FACTORY_KS(&WV_STREAM(__CPROVER_return_value, wv_gs)->crypt._base.key))
#ifdef WV_C18_PROPERTY
__CPROVER_ensures(WV_STREAM_IV_IS(__CPROVER_return_value, wv_gs, iv + 20 * wv_gs))
#else
__CPROVER_ensures(WV_STREAM_IV_IS(__CPROVER_return_value, wv_gs, iv + 20 * wv_gs) || WV_STREAM_IV_IS(__CPROVER_return_value, wv_gs, iv))
#endif
;

void runcrypt__release(runcrypt *this, u8_t *iv, Aesmode **mode)
__CPROVER_requires(__CPROVER_is_fresh(this, sizeof(*this)) && this->threads_num >= 1 && this->threads_num <= 16)
__CPROVER_assigns();

#include "pipeline.h"
/* ---------------- decryption: gated by the verdict (C05, C06, C11, C12, C15) */
bool runcrypt__execute_decrypt(runcrypt *this, size_t fsize)
__CPROVER_requires(WV_RC_PTRS(this) && __CPROVER_is_fresh(this->out, sizeof(wv_FILE)) && WV_RC_CONS(this) && WV_GHOST_IN && WV_FRESH_STATE && wv_gi < 320 && !buffergroup__mtx.held)
__CPROVER_requires(this->out->open && this->out->pos == this->out->len && this->out->len < (1ull << 50) && wv_wcount < (1ull << 59) && this->out->nbytes < (1ull << 59) &&
                   this->fin->len < (1ull << 50) && wv_pg < 16 && wv_gk < 16 && !this->crym.threads[wv_gk].started)
__CPROVER_assigns(WV_VERIFY_STATE(this), this->fin->open, WV_FILE_WSTATE(this->out), this->aesfactory.iv, WV_ARR(this->crym.threads), wv_c, wv_b, wv_steps, wv_pl, wv_worker_mask,
                  buffergroup__instance, buffergroup__mtx, bufferctrl__live_num)
__CPROVER_ensures(wv_magic_ok == (this->fin->len >= 8 && WV_FIN_MAGIC(this)))
__CPROVER_ensures((wv_magic_ok && this->fin->len >= 10) ==> (this->header.ctype == WV_FINB(this, 8) && this->header.htype == WV_FINB(this, 9)))
/* same verdict as verification */
__CPROVER_ensures(__CPROVER_return_value ==> WV_HEADER_OK(this))
__CPROVER_ensures(WV_HEADER_OK(this) ==> (__CPROVER_return_value == WV_TAGEQ(this->header.hash, WV_HLEN_OF_TYPE(this->header.htype))))
/* a failed decryption writes nothing; a successful one writes no more than the body holds */
__CPROVER_ensures(!__CPROVER_return_value ==> (this->out->nwrites == __CPROVER_old(this->out->nwrites) && this->out->nbytes == __CPROVER_old(this->out->nbytes)))
__CPROVER_ensures(__CPROVER_return_value ==> (this->fin->len >= 48 + 20ull * this->threads_num ?
                  this->out->nbytes - __CPROVER_old(this->out->nbytes) <= this->fin->len - (48 + 20ull * this->threads_num) :
                  this->out->nbytes == __CPROVER_old(this->out->nbytes)))
/* nothing survives the operation */
__CPROVER_ensures(WV_FRESH_STATE);

/* ---------------- encryption: header, body, tag -- in this order (C02, C08, C13, C12, C15) */
#define WV_ENC_N_OLD (__CPROVER_old(this->fin->len) - __CPROVER_old(this->fin->pos))
#define WV_ENC_BODY_OLD (16ull * (WV_ENC_N_OLD / 16 + 1))
#define WV_ENC_HDR (48 + 20ull * this->threads_num)
bool runcrypt__execute_encrypt(runcrypt *this, size_t fsize, u8_t *r_buf)
__CPROVER_requires(WV_RC_PTRS(this) && __CPROVER_is_fresh(this->out, sizeof(wv_FILE)) && WV_RC_CONS(this) && WV_FRESH_STATE && !buffergroup__mtx.held)
__CPROVER_requires(WV_FILE_OK(this->fin) && !this->fin->eof && this->fin->len < (1ull << 50) && this->out->open && this->out->pos == 0 && this->out->len == 0 && this->out->nwrites == 0 && this->out->nbytes == 0)
__CPROVER_requires((u8_t)this->settings.ctype <= 4 && (u8_t)this->settings.htype <= 2 && this->header.ctype == (u8_t)this->settings.ctype && this->header.htype == (u8_t)this->settings.htype)
__CPROVER_requires(wv_slen < (1ull << 31) && __CPROVER_is_fresh(r_buf, wv_slen + 1) && r_buf[wv_slen] == 0)
__CPROVER_requires(wv_g < 64 && wv_gr < 16 && wv_hl_n < (1ull << 40) && wv_wcount == 0 && wv_pg < 16 && wv_gk < 16 && !this->crym.threads[wv_gk].started)
__CPROVER_assigns(this->fin->pos, this->fin->eof, this->fin->open, WV_FILE_WSTATE(this->out), this->aesfactory.iv, WV_ARR(this->crym.threads), wv_c, wv_b, wv_steps, wv_pl, wv_worker_mask,
                  this->hmachandle.length, this->hmachandle.hmac_res, this->hmachandle.buf, WV_HMAC_GHOSTS, wv_tagv,
                  buffergroup__instance, buffergroup__mtx, bufferctrl__live_num)
__CPROVER_ensures(__CPROVER_return_value)
/* [C02] length 48 + 20T + 16(floor(n/16)+1); [C12] the input is only read */
__CPROVER_ensures(this->out->len == WV_ENC_HDR + WV_ENC_BODY_OLD && this->fin->len == __CPROVER_old(this->fin->len))
/* [C08] the tag covers [48, EOF) of the finished body and is written with one write of hlen bytes at offset 10 ... */
__CPROVER_ensures(wv_flen0 == this->out->len - 48 && this->out->last_woff == 10 && this->out->last_wlen == WV_HLEN_OF_TYPE((u8_t)this->settings.htype))
/* ... [C13] which is the last write of the run: header (4 + T writes), body, then the tag */
__CPROVER_ensures(this->out->nbytes == WV_ENC_HDR + WV_ENC_BODY_OLD + WV_HLEN_OF_TYPE((u8_t)this->settings.htype))
/* [C02, C08, C13] observed output offset: the tag bytes are written twice (zero in the header write, then the tag), every other byte once;
   the bytes between the tag and offset 48 stay zero */
__CPROVER_ensures(wv_wP < this->out->len ==> wv_wcount == ((wv_wP >= 10 && wv_wP < 10 + (wv_u64)WV_HLEN_OF_TYPE((u8_t)this->settings.htype)) ? 2 : 1))
__CPROVER_ensures((wv_wP >= 10 && wv_wP < 10 + (wv_u64)WV_HLEN_OF_TYPE((u8_t)this->settings.htype)) ==> wv_wbyte == wv_tag[wv_wP - 10])
__CPROVER_ensures(wv_wP < 8 ==> wv_wbyte == ((wv_wP & 1) ? 0xA5 : 0xC3))
__CPROVER_ensures(wv_wP == 8 ==> wv_wbyte == (u8_t)this->settings.ctype)
__CPROVER_ensures(wv_wP == 9 ==> wv_wbyte == (u8_t)this->settings.htype)
__CPROVER_ensures((wv_wP >= 10 + (wv_u64)WV_HLEN_OF_TYPE((u8_t)this->settings.htype) && wv_wP < 48) ==> wv_wbyte == 0)
/* [C15] nothing survives the operation */
__CPROVER_ensures(WV_FRESH_STATE);
#endif

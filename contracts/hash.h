/* Contracts for kernel/hash (C07, C08).  Names are the extractor's: getHash_1 = compression of one 64-byte block,
   getHash_2 = final block(s) with padding; Hashmaster__* are the R5 dispatchers (the abstract contracts every subclass
   must satisfy). */
#ifndef WV_C_HASH_H
#define WV_C_HASH_H
/* The block pointer of a compression / final call is a separate object (string, heap buffer) in every caller except
   getFileHash, which passes the hasher's own hashblock member.  The contracts are proved in both shapes: the *_alias
   obligations are compiled with WV_INPUT_ALIAS. */
#ifdef WV_ALIAS_COMPRESS
#define WV_IN1(hb, input, n) ((input) == (hb))
#else
#define WV_IN1(hb, input, n) __CPROVER_is_fresh(input, n)
#endif
#ifdef WV_ALIAS_FINAL
#define WV_IN2(hb, input, n) ((input) == (hb))
#else
#define WV_IN2(hb, input, n) __CPROVER_is_fresh(input, n)
#endif
/* logging part of a compression call (what callers see) */
#define WV_COMPRESS_LOG(input) \
  __CPROVER_ensures(wv_hl_n == __CPROVER_old(wv_hl_n) + 1) \
  __CPROVER_ensures(__CPROVER_old(wv_hl_n) == wv_hl_watch ==> (wv_hl_wbyte == (input)[wv_g] && wv_hl_wptr == (input))) \
  __CPROVER_ensures(__CPROVER_old(wv_hl_n) != wv_hl_watch ==> (wv_hl_wbyte == __CPROVER_old(wv_hl_wbyte) && wv_hl_wptr == __CPROVER_old(wv_hl_wptr))) \
  __CPROVER_ensures(wv_hl_fptr == __CPROVER_old(wv_hl_fptr) && wv_hl_fr == __CPROVER_old(wv_hl_fr) && wv_hl_ftotal == __CPROVER_old(wv_hl_ftotal))
#define WV_FEED(j) (this->h[j] == __CPROVER_old(this->h[j]) + wv_snap_t[j])
#define WV_TOTAL(p) ((p)->totalsize)

/* ---------------- SHA-256 */
void sha256hash__getHash_1(sha256hash *this, const u8_t *input)
__CPROVER_requires(__CPROVER_is_fresh(this, sizeof(*this)) && WV_IN1(this->_base.hashblock, input, 64) && wv_g < 64 && wv_hl_n < (1ull << 62))
__CPROVER_assigns(WV_ARR(this->h), WV_ARR(this->w), WV_ARR(this->s), this->_base.totalsize, WV_HGHOSTS)
__CPROVER_ensures(this->_base.totalsize == __CPROVER_old(this->_base.totalsize) + 512)
WV_COMPRESS_LOG(input)
/* the block is copied, the schedule is FIPS 180-4 6.2.2 step 1 (observed at one arbitrary index), 64 rounds (in-body
   assertions), feed-forward addition of the working variables after the last round */
__CPROVER_ensures(this->s[wv_g] == input[wv_g])
__CPROVER_ensures(wv_gw < 16 ==> this->w[wv_gw] == SPEC_BE32(input + 4 * wv_gw))
__CPROVER_ensures((wv_gw >= 16 && wv_gw < 64) ==> this->w[wv_gw] == spec_sha256_sched(this->w[wv_gw - 2], this->w[wv_gw - 7], this->w[wv_gw - 15], this->w[wv_gw - 16]))
__CPROVER_ensures(wv_rounds == 64)
__CPROVER_ensures(WV_FEED(0) && WV_FEED(1) && WV_FEED(2) && WV_FEED(3) && WV_FEED(4) && WV_FEED(5) && WV_FEED(6) && WV_FEED(7));

/* ---------------- SHA-1 */
void sha1hash__getHash_1(sha1hash *this, const u8_t *input)
__CPROVER_requires(__CPROVER_is_fresh(this, sizeof(*this)) && WV_IN1(this->_base.hashblock, input, 64) && wv_g < 64 && wv_hl_n < (1ull << 62))
__CPROVER_assigns(WV_ARR(this->h), WV_ARR(this->w), WV_ARR(this->s), this->_base.totalsize, WV_HGHOSTS)
__CPROVER_ensures(this->_base.totalsize == __CPROVER_old(this->_base.totalsize) + 512)
WV_COMPRESS_LOG(input)
__CPROVER_ensures(this->s[wv_g] == input[wv_g])
__CPROVER_ensures(wv_gw < 16 ==> this->w[wv_gw] == SPEC_BE32(input + 4 * wv_gw))
__CPROVER_ensures((wv_gw >= 16 && wv_gw < 80) ==> this->w[wv_gw] == spec_sha1_sched(this->w[wv_gw - 3], this->w[wv_gw - 8], this->w[wv_gw - 14], this->w[wv_gw - 16]))
__CPROVER_ensures(wv_rounds == 80)
__CPROVER_ensures(WV_FEED(0) && WV_FEED(1) && WV_FEED(2) && WV_FEED(3) && WV_FEED(4));

/* ---------------- MD5 */
void md5hash__getHash_1(md5hash *this, const u8_t *input)
__CPROVER_requires(__CPROVER_is_fresh(this, sizeof(*this)) && WV_IN1(this->_base.hashblock, input, 64) && wv_g < 64 && wv_hl_n < (1ull << 62))
__CPROVER_assigns(WV_ARR(this->h), WV_ARR(this->s), this->_base.totalsize, WV_HGHOSTS)
__CPROVER_ensures(this->_base.totalsize == __CPROVER_old(this->_base.totalsize) + 512)
WV_COMPRESS_LOG(input)
/* the block is copied (its little-endian words are X[0..15] through the union), 64 steps of RFC 1321 3.4 in order
   (in-body cut points), feed-forward addition */
__CPROVER_ensures(this->s[wv_g] == input[wv_g])
__CPROVER_ensures(wv_rounds == 64)
__CPROVER_ensures(WV_FEED(0) && WV_FEED(1) && WV_FEED(2) && WV_FEED(3));

/* ---------------- final block(s): padding rule for every residue r < 64 and the 64-bit length field */
#define WV_BITLEN ((u64_t)__CPROVER_old(this->_base.totalsize) + 8ull * final_loadsize)
#define WV_FINAL_ASSIGNS_sha256hash WV_ARR(this->h), WV_ARR(this->w), WV_ARR(this->s), this->_base.totalsize
#define WV_FINAL_ASSIGNS_sha1hash WV_ARR(this->h), WV_ARR(this->w), WV_ARR(this->s), this->_base.totalsize
#define WV_FINAL_ASSIGNS_md5hash WV_ARR(this->h), WV_ARR(this->s), this->_base.totalsize
#define WV_FINAL_CONTRACT(cls, BE) \
void cls##__getHash_2(cls *this, const u8_t *input, u32_t final_loadsize) \
__CPROVER_requires(__CPROVER_is_fresh(this, sizeof(*this)) && final_loadsize < 64 && WV_IN2(this->_base.hashblock, input, final_loadsize) && wv_g < 64 && wv_hl_n < (1ull << 61)) \
__CPROVER_assigns(WV_FINAL_ASSIGNS_##cls, WV_HGHOSTS) \
__CPROVER_ensures(wv_hl_n == __CPROVER_old(wv_hl_n) + (final_loadsize < 56 ? 1 : 2)) \
__CPROVER_ensures(wv_hl_fptr == input && wv_hl_fr == final_loadsize && wv_hl_ftotal == __CPROVER_old(this->_base.totalsize)) \
__CPROVER_ensures(__CPROVER_old(wv_hl_n) == wv_hl_watch ==> wv_hl_wbyte == spec_pad_byte(input, final_loadsize, WV_BITLEN, 0, wv_g, BE)) \
__CPROVER_ensures((final_loadsize >= 56 && __CPROVER_old(wv_hl_n) + 1 == wv_hl_watch) ==> \
                  wv_hl_wbyte == spec_pad_byte(input, final_loadsize, WV_BITLEN, 1, wv_g, BE)) \
__CPROVER_ensures((wv_hl_watch < __CPROVER_old(wv_hl_n) || wv_hl_watch >= wv_hl_n) ==> (wv_hl_wbyte == __CPROVER_old(wv_hl_wbyte) && wv_hl_wptr == __CPROVER_old(wv_hl_wptr)));
WV_FINAL_CONTRACT(sha256hash, 1)
WV_FINAL_CONTRACT(sha1hash, 1)
WV_FINAL_CONTRACT(md5hash, 0)

/* ---------------- reset / getres / lengths */
void sha256hash__reset(sha256hash *this)
__CPROVER_requires(__CPROVER_is_fresh(this, sizeof(*this)))
__CPROVER_assigns(WV_ARR(this->h), this->_base.totalsize)
__CPROVER_ensures(this->_base.totalsize == 0 && this->h[0] == SPEC_SHA256_H0[0] && this->h[1] == SPEC_SHA256_H0[1] && this->h[2] == SPEC_SHA256_H0[2] &&
  this->h[3] == SPEC_SHA256_H0[3] && this->h[4] == SPEC_SHA256_H0[4] && this->h[5] == SPEC_SHA256_H0[5] && this->h[6] == SPEC_SHA256_H0[6] && this->h[7] == SPEC_SHA256_H0[7]);
void sha1hash__reset(sha1hash *this)
__CPROVER_requires(__CPROVER_is_fresh(this, sizeof(*this)))
__CPROVER_assigns(WV_ARR(this->h), this->_base.totalsize)
__CPROVER_ensures(this->_base.totalsize == 0 && this->h[0] == SPEC_SHA1_H0[0] && this->h[1] == SPEC_SHA1_H0[1] && this->h[2] == SPEC_SHA1_H0[2] &&
  this->h[3] == SPEC_SHA1_H0[3] && this->h[4] == SPEC_SHA1_H0[4]);
void md5hash__reset(md5hash *this)
__CPROVER_requires(__CPROVER_is_fresh(this, sizeof(*this)))
__CPROVER_assigns(WV_ARR(this->h), this->_base.totalsize)
__CPROVER_ensures(this->_base.totalsize == 0 && this->h[0] == SPEC_MD5_H0[0] && this->h[1] == SPEC_MD5_H0[1] && this->h[2] == SPEC_MD5_H0[2] && this->h[3] == SPEC_MD5_H0[3]);

unsigned wv_gr;   /* ghost: observed digest byte index */
void sha256hash__getres(sha256hash *this, u8_t *hashout)
__CPROVER_requires(__CPROVER_is_fresh(this, sizeof(*this)) && __CPROVER_is_fresh(hashout, 32) && wv_gr < 32)
__CPROVER_assigns(__CPROVER_object_upto(hashout, 32))
__CPROVER_ensures(hashout[wv_gr] == (u8_t)(this->h[wv_gr >> 2] >> (8 * (3 - (wv_gr & 3)))));
void sha1hash__getres(sha1hash *this, u8_t *hashout)
__CPROVER_requires(__CPROVER_is_fresh(this, sizeof(*this)) && __CPROVER_is_fresh(hashout, 20) && wv_gr < 20)
__CPROVER_assigns(__CPROVER_object_upto(hashout, 20))
__CPROVER_ensures(hashout[wv_gr] == (u8_t)(this->h[wv_gr >> 2] >> (8 * (3 - (wv_gr & 3)))));
void md5hash__getres(md5hash *this, u8_t *hashout)
__CPROVER_requires(__CPROVER_is_fresh(this, sizeof(*this)) && __CPROVER_is_fresh(hashout, 16) && wv_gr < 16)
__CPROVER_assigns(__CPROVER_object_upto(hashout, 16))
__CPROVER_ensures(hashout[wv_gr] == (u8_t)(this->h[wv_gr >> 2] >> (8 * (wv_gr & 3))));

/* ---------------- abstract contracts (R5 dispatchers): what the drivers rely on, what every subclass must satisfy */
/* size of a hasher object: callers only need the base part to be readable; the proofs of the dispatchers and drivers themselves
   (compiled with WV_HM_BIG) allocate the largest subclass so that every dynamic type fits */
#ifdef WV_HM_BIG
#define WV_HM_SIZE sizeof(sha1hash)
#else
#define WV_HM_SIZE sizeof(Hashmaster)
#endif
#define WV_IS_HASHER(p) (WV_TAG_OF(p) == WV_TAG_sha1hash || WV_TAG_OF(p) == WV_TAG_md5hash || WV_TAG_OF(p) == WV_TAG_sha256hash)
#define WV_HLEN(p) (WV_TAG_OF(p) == WV_TAG_sha1hash ? 20 : WV_TAG_OF(p) == WV_TAG_md5hash ? 16 : 32)
/* conditional assigns targets: the digest buffer has the selected hash's length */
#define WV_ASSIGNS_DIGEST(p, out) WV_TAG_OF(p) == WV_TAG_sha1hash: __CPROVER_object_upto(out, 20); \
  WV_TAG_OF(p) == WV_TAG_md5hash: __CPROVER_object_upto(out, 16); WV_TAG_OF(p) == WV_TAG_sha256hash: __CPROVER_object_upto(out, 32)
#define WV_HBE(p) (WV_TAG_OF(p) != WV_TAG_md5hash)
/* byte i of the digest serialisation of the current chaining value */
/* the chaining value h[] sits at the same offset in all three subclasses (checked), so it is read through one layout;
   a three-way conditional over differently typed dereferences of the same pointer is mis-evaluated by CBMC 6.11 (measured) */
_Static_assert(__builtin_offsetof(sha1hash, h) == __builtin_offsetof(sha256hash, h) && __builtin_offsetof(md5hash, h) == __builtin_offsetof(sha256hash, h), "h offset");
#define WV_HWORD(p, j) (((sha256hash *)(p))->h[j])
#define WV_HSER(p, i) (WV_HBE(p) ? (u8_t)(WV_HWORD(p, (i) >> 2) >> (8 * (3 - ((i) & 3)))) : (u8_t)(WV_HWORD(p, (i) >> 2) >> (8 * ((i) & 3))))

void Hashmaster__reset(Hashmaster *this)
__CPROVER_requires(__CPROVER_is_fresh(this, WV_HM_SIZE) && WV_IS_HASHER(this))
__CPROVER_assigns(__CPROVER_object_whole(this))
__CPROVER_ensures(this->totalsize == 0 && WV_TAG_OF(this) == __CPROVER_old(WV_TAG_OF(this)));

void Hashmaster__getHash_1(Hashmaster *this, const u8_t *input)
__CPROVER_requires(__CPROVER_is_fresh(this, WV_HM_SIZE) && WV_IS_HASHER(this) && WV_IN1(this->hashblock, input, 64) && wv_g < 64 && wv_hl_n < (1ull << 61))
__CPROVER_assigns(__CPROVER_object_whole(this), WV_HGHOSTS)
__CPROVER_ensures(this->totalsize == __CPROVER_old(this->totalsize) + 512 && WV_TAG_OF(this) == __CPROVER_old(WV_TAG_OF(this)))
WV_COMPRESS_LOG(input);

#define WV_BITLEN_A ((u64_t)__CPROVER_old(this->totalsize) + 8ull * final_loadsize)
void Hashmaster__getHash_2(Hashmaster *this, const u8_t *input, u32_t final_loadsize)
__CPROVER_requires(__CPROVER_is_fresh(this, WV_HM_SIZE) && WV_IS_HASHER(this) && final_loadsize < 64 && WV_IN2(this->hashblock, input, final_loadsize) && wv_g < 64 && wv_hl_n < (1ull << 60))
__CPROVER_assigns(__CPROVER_object_whole(this), WV_HGHOSTS)
__CPROVER_ensures(WV_TAG_OF(this) == __CPROVER_old(WV_TAG_OF(this)))
__CPROVER_ensures(wv_hl_n == __CPROVER_old(wv_hl_n) + (final_loadsize < 56 ? 1 : 2))
__CPROVER_ensures(wv_hl_fptr == input && wv_hl_fr == final_loadsize && wv_hl_ftotal == __CPROVER_old(this->totalsize))
__CPROVER_ensures((wv_hl_watch < __CPROVER_old(wv_hl_n) || wv_hl_watch >= wv_hl_n) ==> wv_hl_wptr == __CPROVER_old(wv_hl_wptr))
__CPROVER_ensures(__CPROVER_old(wv_hl_n) == wv_hl_watch ==> wv_hl_wbyte == spec_pad_byte(input, final_loadsize, WV_BITLEN_A, 0, wv_g, WV_HBE(this)))
__CPROVER_ensures((final_loadsize >= 56 && __CPROVER_old(wv_hl_n) + 1 == wv_hl_watch) ==>
                  wv_hl_wbyte == spec_pad_byte(input, final_loadsize, WV_BITLEN_A, 1, wv_g, WV_HBE(this)))
__CPROVER_ensures((wv_hl_watch < __CPROVER_old(wv_hl_n) || wv_hl_watch >= wv_hl_n) ==> wv_hl_wbyte == __CPROVER_old(wv_hl_wbyte));

void Hashmaster__getres(Hashmaster *this, u8_t *hashout)
__CPROVER_requires(__CPROVER_is_fresh(this, WV_HM_SIZE) && WV_IS_HASHER(this) && __CPROVER_is_fresh(hashout, WV_HLEN(this)) && wv_gr < WV_HLEN(this))
__CPROVER_assigns(WV_ASSIGNS_DIGEST(this, hashout))
__CPROVER_ensures(hashout[wv_gr] == WV_HSER(this, wv_gr));

const u8_t Hashmaster__gethlen(Hashmaster *this)
__CPROVER_requires(__CPROVER_is_fresh(this, WV_HM_SIZE) && WV_IS_HASHER(this))
__CPROVER_assigns()
__CPROVER_ensures(__CPROVER_return_value == WV_HLEN(this));
const u8_t Hashmaster__getblen(Hashmaster *this)
__CPROVER_requires(__CPROVER_is_fresh(this, WV_HM_SIZE) && WV_IS_HASHER(this))
__CPROVER_assigns()
__CPROVER_ensures(__CPROVER_return_value == 64);

/* ---------------- driver over a byte string: blocks in order, then the final routine with the tail, then the serialisation.
   Observed through the call log at the harness-chosen call number wv_hl_watch and byte index wv_g. */
#define WV_NFULL (length >> 6)
#define WV_REL (wv_hl_watch - __CPROVER_old(wv_hl_n))
void Hashmaster__getStringHash(Hashmaster *this, const u8_t *string, u32_t length, u8_t *hashres)
__CPROVER_requires(__CPROVER_is_fresh(this, WV_HM_SIZE) && WV_IS_HASHER(this) && __CPROVER_is_fresh(string, length) &&
                   __CPROVER_is_fresh(hashres, WV_HLEN(this)) && wv_g < 64 && wv_gr < WV_HLEN(this) && wv_hl_n < (1ull << 58))
__CPROVER_assigns(__CPROVER_object_whole(this), WV_HGHOSTS, wv_hl_out)
__CPROVER_assigns(WV_ASSIGNS_DIGEST(this, hashres))
__CPROVER_ensures(WV_TAG_OF(this) == __CPROVER_old(WV_TAG_OF(this)))
__CPROVER_ensures(wv_hl_n == __CPROVER_old(wv_hl_n) + WV_NFULL + ((length & 63) < 56 ? 1 : 2))
/* block number k of the message is string[64k .. 64k+64) ... */
__CPROVER_ensures((wv_hl_watch >= __CPROVER_old(wv_hl_n) && WV_REL < WV_NFULL) ==> wv_hl_wptr == string + 64 * (size_t)WV_REL)
/* ... and the final routine gets the tail, its length, and a bit counter that equals 8 * (bytes hashed before) */
__CPROVER_ensures(wv_hl_fptr == string + 64 * (size_t)WV_NFULL && wv_hl_fr == (length & 63) && wv_hl_ftotal == 512ull * WV_NFULL)
__CPROVER_ensures(hashres[wv_gr] == WV_HSER(this, wv_gr) && wv_hl_out == hashres);

/* ---------------- hashing buffer: the sequence of units delivered is 64, 64, ..., 64, short (lengths; content is not modelled) */
#include "file.h"
#define WV_FB_LEFT_OLD(fb) ((__CPROVER_old((fb)->has_extra) ? 64ull : 0ull) + \
  (__CPROVER_old((fb)->now) <= __CPROVER_old((fb)->total) ? 64ull * (__CPROVER_old((fb)->total) - __CPROVER_old((fb)->now)) + __CPROVER_old((fb)->tail) : 0ull) + \
  (__CPROVER_old((fb)->fp->len) - __CPROVER_old((fb)->fp->pos)))
#define WV_FB_FRESH(fb) (__CPROVER_is_fresh(fb, sizeof(filebuffer64)) && __CPROVER_is_fresh((fb)->fp, sizeof(wv_FILE)))

void filebuffer64__ctor(filebuffer64 *this, FILE *fp, u8_t *block)
__CPROVER_requires(__CPROVER_is_fresh(this, sizeof(*this)) && __CPROVER_is_fresh(fp, sizeof(*fp)) && WV_FILE_OK(fp) &&
                   (block != NULL ==> __CPROVER_is_fresh(block, 64)))
__CPROVER_assigns(*this, fp->pos, fp->eof)
__CPROVER_ensures(this->fp == fp && this->_base._wv_tag == WV_TAG_filebuffer64 && WV_FB_OK_F(this, fp) && !WV_FB_DONE(this))
__CPROVER_ensures(this->has_extra == (block != NULL))
/* the stream is: the prefix block if one was given, then the file from its position at construction to its end */
__CPROVER_ensures(WV_FB_LEFT_F(this, fp) == (block != NULL ? 64ull : 0ull) + (__CPROVER_old(fp->len) - __CPROVER_old(fp->pos)));

u32_t filebuffer64__read_buffer64(filebuffer64 *this, u8_t *block)
__CPROVER_requires(WV_FB_FRESH(this) && WV_FB_OK(this) && !WV_FB_DONE(this) && __CPROVER_is_fresh(block, 64))
__CPROVER_assigns(WV_FB_STATE(this), __CPROVER_object_upto(block, 64))
__CPROVER_ensures(__CPROVER_return_value == (WV_FB_LEFT_OLD(this) >= 64 ? 64 : WV_FB_LEFT_OLD(this)))
__CPROVER_ensures(WV_FB_LEFT(this) == WV_FB_LEFT_OLD(this) - __CPROVER_return_value)
__CPROVER_ensures(WV_FB_OK(this) && WV_FB_DONE(this) == (__CPROVER_return_value < 64))
__CPROVER_ensures(this->fp == __CPROVER_old(this->fp) && this->fp->len == __CPROVER_old(this->fp->len));

/* R5 dispatcher (filebuffer64 is the only subclass) */
u32_t buffer64__read_buffer64(buffer64 *this, u8_t *block)
__CPROVER_requires(WV_FB_FRESH(WV_FB(this)) && WV_TAG_OF(this) == WV_TAG_filebuffer64 && WV_FB_OK(WV_FB(this)) && !WV_FB_DONE(WV_FB(this)) && __CPROVER_is_fresh(block, 64))
__CPROVER_assigns(WV_FB_STATE(WV_FB(this)), __CPROVER_object_upto(block, 64))
__CPROVER_ensures(__CPROVER_return_value == (WV_FB_LEFT_OLD(WV_FB(this)) >= 64 ? 64 : WV_FB_LEFT_OLD(WV_FB(this))))
__CPROVER_ensures(WV_FB_LEFT(WV_FB(this)) == WV_FB_LEFT_OLD(WV_FB(this)) - __CPROVER_return_value)
__CPROVER_ensures(WV_FB_OK(WV_FB(this)) && WV_FB_DONE(WV_FB(this)) == (__CPROVER_return_value < 64) && WV_TAG_OF(this) == WV_TAG_filebuffer64)
__CPROVER_ensures(WV_FB(this)->fp == __CPROVER_old(WV_FB(this)->fp) && WV_FB(this)->fp->len == __CPROVER_old(WV_FB(this)->fp->len));

/* driver over a stream: every 64-byte unit goes to the compression function in order, the short unit to the final routine
   with the bit count of what was hashed before; the whole stream is consumed */
void Hashmaster__getFileHash(Hashmaster *this, buffer64 *buffer, u8_t *hashres)
__CPROVER_requires(__CPROVER_is_fresh(this, WV_HM_SIZE) && WV_IS_HASHER(this) && WV_FB_FRESH(WV_FB(buffer)) && WV_TAG_OF(buffer) == WV_TAG_filebuffer64 &&
                   WV_FB_OK(WV_FB(buffer)) && !WV_FB_DONE(WV_FB(buffer)) && __CPROVER_is_fresh(hashres, WV_HLEN(this)) && wv_g < 64 && wv_gr < WV_HLEN(this) && wv_hl_n < (1ull << 58))
__CPROVER_assigns(__CPROVER_object_whole(this), WV_FB_STATE(WV_FB(buffer)), WV_HGHOSTS, wv_hl_out, wv_fb_left0)
__CPROVER_assigns(WV_ASSIGNS_DIGEST(this, hashres))
__CPROVER_ensures(WV_TAG_OF(this) == __CPROVER_old(WV_TAG_OF(this)))
__CPROVER_ensures(wv_hl_n == __CPROVER_old(wv_hl_n) + (WV_FB_LEFT_OLD(WV_FB(buffer)) >> 6) + ((WV_FB_LEFT_OLD(WV_FB(buffer)) & 63) < 56 ? 1 : 2))
__CPROVER_ensures(wv_hl_fr == (WV_FB_LEFT_OLD(WV_FB(buffer)) & 63) && wv_hl_ftotal == 512ull * (WV_FB_LEFT_OLD(WV_FB(buffer)) >> 6))
__CPROVER_ensures(WV_FB_LEFT(WV_FB(buffer)) == 0 && WV_FB(buffer)->fp->pos == WV_FB(buffer)->fp->len)
__CPROVER_ensures(hashres[wv_gr] == WV_HSER(this, wv_gr) && wv_hl_out == hashres);
#endif

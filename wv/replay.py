"""Replay of a failed obligation against the real code (DESIGN.md section 7).  Each replay driver is a native program
compiled from /repo's current sources that runs the real functions on inputs taken from the verifier's trace, or, where the
trace cannot be mapped to an input of the public function, on VERIF_SEED-derived inputs, and compares with the
specification library.  If no failing input is found the replay file still names the obligation and carries the
verifier's output, and the caller appends no-failing-input-found to the VIOLATION line."""
import json, os, subprocess, time

VERIF = os.path.dirname(os.path.dirname(os.path.abspath(__file__)))
REPO = os.environ.get('WV_REPO', '/repo')
INC = ['kernel', 'kernel/hash', 'kernel/multi_aes', 'kernel/multi_aes/aes', 'valget', 'valget/base64']


def native(driver, sources, args, work, timeout=300, extra=()):
    exe = os.path.join(work, 'replay_' + os.path.basename(driver).split('.')[0])
    cmd = ['g++', '-std=c++17', '-O1', '-w', '-pthread', '-I' + os.path.join(VERIF, 'spec')] + ['-I' + os.path.join(REPO, d) for d in INC] + \
          list(extra) + [os.path.join(VERIF, 'replay', driver)] + [os.path.join(REPO, s) for s in sources] + ['-o', exe]
    r = subprocess.run(cmd, stdout=subprocess.PIPE, stderr=subprocess.STDOUT)
    if r.returncode != 0:
        return None, 'replay driver does not compile: ' + r.stdout.decode()[-400:]
    try:
        r = subprocess.run([exe] + [str(a) for a in args], stdout=subprocess.PIPE, stderr=subprocess.STDOUT, timeout=timeout)
    except subprocess.TimeoutExpired:
        return 124, 'replay timed out after %ds (the real code does not return)' % timeout
    return r.returncode, r.stdout.decode(errors='replace')[-2000:]


def replay_aes(prop, r, fs, seed, work):
    rc, out = native('aes_replay.cpp', ['kernel/multi_aes/aes/aes.cpp'], [seed, 20000], work)
    return rc == 1, out


def replay_mode(prop, r, fs, seed, work):
    """mode_* groups: a failed one-step contract of a stream object is looked for on whole streams of the real objects (40 blocks, all five
    modes, both directions) against SP 800-38A built from the FIPS-197 specification library; IV shapes with zero bytes and counter carries"""
    rc, out = native('mode_replay.cpp', ['kernel/multi_aes/aes/aes.cpp', 'kernel/multi_aes/aes/aesmode.cpp'], [seed, 300], work)
    return rc == 1, out


def replay_hash(prop, r, fs, seed, work):
    big = ['big'] if any('loop_invariant' in (f['id'] or '') or 'postcondition.2' in (f['id'] or '') for f in fs) or 'getStringHash' in r['name'] else []
    rc, out = native('hash_replay.cpp', ['kernel/hash/sha1.cpp', 'kernel/hash/md5.cpp', 'kernel/hash/sha256.cpp', 'kernel/hash/hashmaster.cpp',
                                          'kernel/hash/hashbuffer.cpp'], [seed, 300] + big, work, timeout=900)
    return rc == 1, out


def replay_b64(prop, r, fs, seed, work):
    rc, out = native('b64_replay.cpp', ['valget/base64/base64.cpp'], [seed], work)
    return rc == 1, out


def replay_file(prop, r, fs, seed, work):
    """file-level obligation groups (cry_*, pipe_*, hmac_*, fheader_*, bg_*): the verifier's trace is over ghost files and cannot be turned
    into a real file mechanically, so the real program is run on a battery instead: round trips over the lengths around the block and
    chunk boundaries, thread counts, modes, and one tampered byte per header / IV / body / tag region; seed-dependent extra lengths"""
    import random
    rnd = random.Random(seed)
    src = ['kernel/cry.cpp', 'kernel/fheader.cpp', 'kernel/hash/sha1.cpp', 'kernel/hash/md5.cpp', 'kernel/hash/sha256.cpp', 'kernel/hash/hashmaster.cpp',
           'kernel/hash/hashbuffer.cpp', 'kernel/multi_aes/multi_buffergroup.cpp', 'kernel/multi_aes/multicry.cpp', 'kernel/multi_aes/aes/aes.cpp',
           'kernel/multi_aes/aes/aesmode.cpp']
    exe = os.path.join(work, 'replay_pipeline_replay')
    cmd = ['g++', '-std=c++17', '-O1', '-w', '-pthread'] + ['-I' + os.path.join(REPO, d) for d in INC] + [os.path.join(VERIF, 'replay', 'pipeline_replay.cpp')] + \
          [os.path.join(REPO, x) for x in src] + ['-o', exe]
    c = subprocess.run(cmd, stdout=subprocess.PIPE, stderr=subprocess.STDOUT)
    if c.returncode != 0:
        return False, 'replay driver does not compile against the current tree: ' + c.stdout.decode()[-400:]
    CH = 16 << 20
    runs = []
    for n in [0, 1, 15, 16, 17, 31, 32, 33, 63, 64, 4095, rnd.randrange(1, 5000), rnd.randrange(1, 100000)]:
        for T in (1, 2, 3, 16):
            runs.append(['roundtrip', n, T, rnd.randrange(5), rnd.randrange(3)])
    for n in (CH - 1, CH, CH + 1, 2 * CH):
        runs.append(['roundtrip', n, rnd.choice((1, 2, 3)), rnd.randrange(5), rnd.randrange(3)])
    for T in (1, 2):
        body = 48 + 20 * T
        for off in (0, 8, 9, 10, 25, 40, 48, body - 1, body, body + 5, body + 31):
            runs.append(['roundtrip', 40, T, 1 + rnd.randrange(4), rnd.randrange(3), off, rnd.randrange(1, 256)])
    runs.append(['streams', 2, 2])
    log = []
    for a in runs:
        try:
            q = subprocess.run([exe] + [str(x) for x in a], stdout=subprocess.PIPE, stderr=subprocess.STDOUT, timeout=240)
            rc, out = q.returncode, q.stdout.decode(errors='replace')
        except subprocess.TimeoutExpired:
            rc, out = 124, 'timed out after 240 s (the real code does not return)'
        if a[0] == 'streams' or (len(a) >= 7 and a[5] == 8):
            continue     # the two recorded findings (known_findings.json D10, D7) are not counted as a reproduction of something else
        if rc != 0:
            line = [x for x in out.split('\n') if x.startswith('RESULT')]
            log.append('FAILING INPUT: pipeline_replay %s -> exit %d %s' % (' '.join(str(x) for x in a), rc, line[-1] if line else out[-300:]))
            return True, '\n'.join(log)
    return False, 'battery of %d runs of the real program (round trips, tampered bytes) passed: no failing input found' % len(runs)


DRIVERS = [('cry_', replay_file), ('pipe_', replay_file), ('hmac_', replay_file), ('fheader_', replay_file), ('bg_', replay_file), ('b64_', replay_b64), ('aes_', replay_aes), ('mode_', replay_mode), ('sha', replay_hash), ('md5', replay_hash), ('hashmaster_', replay_hash), ('filebuffer', replay_hash)]


def make(prop, r, fs, meta, seed, work):
    os.makedirs(os.path.join(VERIF, 'out', 'replays'), exist_ok=True)
    path = os.path.join(VERIF, 'out', 'replays', '%s-%s-%d.json' % (prop, r['name'], int(time.time())))
    reproduced, native_out = False, 'no native replay driver for this obligation group'
    for prefix, fn in DRIVERS:
        if r['name'].startswith(prefix):
            try:
                reproduced, native_out = fn(prop, r, fs, seed, work)
            except Exception as e:
                native_out = 'replay driver error: %r' % e
            break
    f = meta['funcs'].get(r['enforce'] or '', {})
    json.dump({'property': prop, 'obligation_group': r['name'], 'function_under_contract': r['enforce'],
               'source': '%s:%s' % (f.get('file'), f.get('line')), 'callees_replaced_by_contract': r['replace'],
               'failed_obligations': [{'id': x['id'], 'description': x['description'], 'function': x['function'], 'line_in_extracted_c': x['line']} for x in fs],
               'reproduced_on_real_code': reproduced, 'native_replay_output': native_out,
               'verifier_trace': [x['trace'] for x in fs[:3]]}, open(path, 'w'), indent=1)
    return path, reproduced

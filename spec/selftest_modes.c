/* native validation of modes_spec.h (+ aes_spec.h) against NIST SP 800-38A Appendix F.1.1, F.2.1, F.3.13, F.4.1, F.5.1 (AES-128) */
#include <stdio.h>
#include <string.h>
#include "aes_spec.h"
#include "modes_spec.h"
static wv_u128 K[11];
#define E(x) spec_cipher(x, K)
#define D(x) spec_invcipher(x, K)
static void unhex(const char *h, unsigned char *o, int n) { for (int i = 0; i < n; ++i) { unsigned v; sscanf(h + 2 * i, "%2x", &v); o[i] = (unsigned char)v; } }
static wv_u128 be(const unsigned char *p) { wv_u128 x = 0; for (int i = 0; i < 16; ++i) x = (x << 8) | p[i]; return x; }
static void be_store(wv_u128 x, unsigned char *p) { for (int i = 15; i >= 0; --i) { p[i] = (unsigned char)x; x >>= 8; } }
static void st(wv_u128 x, unsigned char *p) { for (int i = 0; i < 16; ++i) p[i] = spec_store_byte(x, i); }
static int run(const char *name, int mode, int enc, const char *ivh, const char *inh, const char *outh)
{
  unsigned char iv[16], in[64], want[64], got[64];
  unhex(ivh, iv, 16); unhex(inh, in, 64); unhex(outh, want, 64);
  wv_u128 v = spec_load(iv);
  for (int b = 0; b < 4; ++b)
  {
    wv_u128 x = spec_load(in + 16 * b), o, nv;
    switch (mode * 2 + enc)
    {
    case 1: o = SPEC_ECB_ENC_OUT(E, D, v, x); nv = SPEC_ECB_ENC_IV(E, D, v, x); break;
    case 0: o = SPEC_ECB_DEC_OUT(E, D, v, x); nv = SPEC_ECB_DEC_IV(E, D, v, x); break;
    case 3: o = SPEC_CBC_ENC_OUT(E, D, v, x); nv = SPEC_CBC_ENC_IV(E, D, v, x); break;
    case 2: o = SPEC_CBC_DEC_OUT(E, D, v, x); nv = SPEC_CBC_DEC_IV(E, D, v, x); break;
    case 5: case 4: { o = SPEC_CTR_OUT(E, D, v, x); unsigned char t[16]; st(v, t); be_store(SPEC_CTR_NEXT_BE(be(t)), t); nv = spec_load(t); break; }
    case 7: o = SPEC_CFB_ENC_OUT(E, D, v, x); nv = SPEC_CFB_ENC_IV(E, D, v, x); break;
    case 6: o = SPEC_CFB_DEC_OUT(E, D, v, x); nv = SPEC_CFB_DEC_IV(E, D, v, x); break;
    default: o = SPEC_OFB_OUT(E, D, v, x); nv = SPEC_OFB_IV(E, D, v, x); break;
    }
    st(o, got + 16 * b);
    v = nv;
  }
  if (memcmp(got, want, 64)) { printf("FAIL %s\n", name); return 1; }
  return 0;
}
int main(void)
{
  unsigned char key[16];
  unhex("2b7e151628aed2a6abf7158809cf4f3c", key, 16);
  K[0] = spec_load(key);
  for (int r = 1; r < 11; ++r) K[r] = spec_nextkey(K[r - 1], r);
  const char *P = "6bc1bee22e409f96e93d7e117393172aae2d8a571e03ac9c9eb76fac45af8e5130c81c46a35ce411e5fbc1191a0a52eff69f2445df4f9b17ad2b417be66c3710";
  const char *IV = "000102030405060708090a0b0c0d0e0f", *CTR0 = "f0f1f2f3f4f5f6f7f8f9fafbfcfdfeff";
  const char *ECB = "3ad77bb40d7a3660a89ecaf32466ef97f5d3d58503b9699de785895a96fdbaaf43b1cd7f598ece23881b00e3ed0306887b0c785e27e8ad3f8223207104725dd4";
  const char *CBC = "7649abac8119b246cee98e9b12e9197d5086cb9b507219ee95db113a917678b273bed6b8e3c1743b7116e69e222295163ff1caa1681fac09120eca307586e1a7";
  const char *CFB = "3b3fd92eb72dad20333449f8e83cfb4ac8a64537a0b3a93fcde3cdad9f1ce58b26751f67a3cbb140b1808cf187a4f4dfc04b05357c5d1c0eeac4c66f9ff7f2e6";
  const char *OFB = "3b3fd92eb72dad20333449f8e83cfb4a7789508d16918f03f53c52dac54ed8259740051e9c5fecf64344f7a82260edcc304c6528f659c77866a510d9c1d6ae5e";
  const char *CTR = "874d6191b620e3261bef6864990db6ce9806f66b7970fdff8617187bb9fffdff5ae4df3edbd5d35e5b4f09020db03eab1e031dda2fbe03d1792170a0f3009cee";
  int bad = 0;
  bad |= run("F.1.1 ECB-AES128.Encrypt", 0, 1, IV, P, ECB) | run("F.1.2 ECB-AES128.Decrypt", 0, 0, IV, ECB, P);
  bad |= run("F.2.1 CBC-AES128.Encrypt", 1, 1, IV, P, CBC) | run("F.2.2 CBC-AES128.Decrypt", 1, 0, IV, CBC, P);
  bad |= run("F.5.1 CTR-AES128.Encrypt", 2, 1, CTR0, P, CTR) | run("F.5.2 CTR-AES128.Decrypt", 2, 0, CTR0, CTR, P);
  bad |= run("F.3.13 CFB128-AES128.Encrypt", 3, 1, IV, P, CFB) | run("F.3.14 CFB128-AES128.Decrypt", 3, 0, IV, CFB, P);
  bad |= run("F.4.1 OFB-AES128.Encrypt", 4, 1, IV, P, OFB) | run("F.4.2 OFB-AES128.Decrypt", 4, 0, IV, OFB, P);
  /* counter wrap: ff..ff + 1 = 0, and a carry across several bytes */
  unsigned char t[16]; memset(t, 0xff, 16); if (SPEC_CTR_NEXT_BE(be(t)) != 0) { printf("FAIL ctr wrap\n"); bad = 1; }
  printf("modes_spec vectors=10 %s\n", bad ? "FAILED" : "ok");
  return bad;
}

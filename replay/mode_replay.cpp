// Replay for the mode obligations (mode_*): the real stream objects of /repo (AesFactory::createCryMaster, runcry) against
// NIST SP 800-38A streams built from the FIPS-197 specification library, block by block, for streams of NBLK blocks.
// Inputs: seed-derived keys / IVs / data plus the corner shapes a one-step contract failure typically needs in order to
// show on a whole stream (IV with zero bytes, IV whose counter carries into the upper bytes, long streams).
// exit 1 = a failing (mode, direction, key, iv, block index) was found and printed; exit 0 = none found.
#include "aesmode.h"
#include <stdio.h>
#include <stdlib.h>
#include <string.h>
extern "C" {
#include "aes_spec.h"
}
enum { NBLK = 40 };
static void hex(const char *n, const u8_t *p) { printf("%s=", n); for (int i = 0; i < 16; ++i) printf("%02x", p[i]); printf(" "); }
static wv_u128 K[11];
static void E(const u8_t *in, u8_t *out) { wv_u128 e = spec_cipher(spec_load(in), K); for (int i = 0; i < 16; ++i) out[i] = spec_store_byte(e, i); }
static void D(const u8_t *in, u8_t *out) { wv_u128 e = spec_invcipher(spec_load(in), K); for (int i = 0; i < 16; ++i) out[i] = spec_store_byte(e, i); }
static void xr(u8_t *a, const u8_t *b) { for (int i = 0; i < 16; ++i) a[i] ^= b[i]; }
// SP 800-38A, one block; reg is the chaining register / counter (big-endian increment over all 128 bits for CTR)
static void ref_step(int mode, bool enc, u8_t *reg, const u8_t *in, u8_t *out)
{
  u8_t t[16];
  switch (mode)
  {
  case 0: if (enc) E(in, out); else D(in, out); break;
  case 1:
    if (enc) { memcpy(t, in, 16); xr(t, reg); E(t, out); memcpy(reg, out, 16); }
    else { D(in, out); xr(out, reg); memcpy(reg, in, 16); }
    break;
  case 2: E(reg, t); memcpy(out, in, 16); xr(out, t); for (int i = 15; i >= 0; --i) if (++reg[i]) break; break;
  case 3: E(reg, t); memcpy(out, in, 16); xr(out, t); memcpy(reg, enc ? out : in, 16); break;
  case 4: E(reg, t); memcpy(out, in, 16); xr(out, t); memcpy(reg, t, 16); break;
  }
}
int main(int argc, char **argv)
{
  unsigned seed = argc > 1 ? atoi(argv[1]) : 1;
  int n = argc > 2 ? atoi(argv[2]) : 300;
  srand(seed);
  static const char *names[5] = {"ECB", "CBC", "CTR", "CFB", "OFB"};
  for (int it = 0; it < n; ++it)
  {
    u8_t k[16], iv[32];
    for (int i = 0; i < 16; ++i) { k[i] = rand(); iv[i] = rand(); }
    memset(iv + 16, 0xa5, 16);
    switch (it % 6)                      // corner shapes of the IV / counter
    {
    case 1: iv[rand() % 16] = 0; break;                                  // a zero byte inside the IV
    case 2: memset(iv + 1, 0xff, 15); iv[15] = 0xff - rand() % NBLK; break;   // carry into byte 0
    case 3: iv[0] = 0; break;
    case 4: memset(iv + 8, 0xff, 8); iv[15] = 0xfe; break;               // carry across the 64-bit half
    default: break;
    }
    K[0] = spec_load(k);
    for (int r = 1; r < 11; ++r) K[r] = spec_nextkey(K[r - 1], r);
    for (int mode = 0; mode < 5; ++mode)
      for (int enc = 1; enc >= 0; --enc)
      {
        u8_t key2[16], iv2[32];
        memcpy(key2, k, 16); memcpy(iv2, iv, 32);
        AesFactory f(key2, iv2);
        Aesmode *m = f.createCryMaster(enc, mode);
        if (!m) { printf("FAILING INPUT: createCryMaster(%d, %d) returned NULL\n", enc, mode); return 1; }
        u8_t reg[16];
        memcpy(reg, iv, 16);
        for (int b = 0; b < NBLK; ++b)
        {
          u8_t in[16], want[16], got[16];
          for (int i = 0; i < 16; ++i) in[i] = rand();
          ref_step(mode, enc, reg, in, want);
          memcpy(got, in, 16);
          m->runcry(got);
          if (memcmp(got, want, 16))
          {
            printf("FAILING INPUT (%s %s, block %d of the stream differs from SP 800-38A): ", names[mode], enc ? "encryptor" : "decryptor", b);
            hex("key", k); hex("iv", iv); hex("block_in", in); hex("real_out", got); hex("sp800_38a_out", want);
            printf("\n");
            return 1;
          }
        }
      }
  }
  printf("no failing input among %d (key, iv) pairs x 5 modes x 2 directions x %d-block streams\n", n, NBLK);
  return 0;
}

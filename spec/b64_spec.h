/* RFC 4648 section 4 (base64 with the standard alphabet and '=' padding), written from the RFC. */
#ifndef B64_SPEC_H
#define B64_SPEC_H
#ifdef WV_CBMC
#pragma CPROVER check push
#pragma CPROVER check disable "bounds"
#pragma CPROVER check disable "pointer"
#pragma CPROVER check disable "signed-overflow"
#pragma CPROVER check disable "unsigned-overflow"
#pragma CPROVER check disable "conversion"
#pragma CPROVER check disable "undefined-shift"
#pragma CPROVER check disable "pointer-overflow"
#pragma CPROVER check disable "pointer-primitive"
#pragma CPROVER check disable "div-by-zero"
#endif
/* Table 1: the base 64 alphabet */
static inline int spec_b64_index(unsigned char c)
{
  if (c >= 'A' && c <= 'Z') return c - 'A';
  if (c >= 'a' && c <= 'z') return c - 'a' + 26;
  if (c >= '0' && c <= '9') return c - '0' + 52;
  if (c == '+') return 62;
  if (c == '/') return 63;
  return -1;
}
static inline unsigned char spec_b64_char(unsigned v)
{
  v &= 63;
  return (unsigned char)(v < 26 ? 'A' + v : v < 52 ? 'a' + (v - 26) : v < 62 ? '0' + (v - 52) : v == 62 ? '+' : '/');
}
/* character j (0..3) of the output group for an input group of `rem` bytes (1, 2, or >= 3 meaning a full group) */
static inline unsigned char spec_b64_enc_char(const unsigned char *grp, int rem, int j)
{
  unsigned v = ((unsigned)grp[0] << 16) | (rem > 1 ? (unsigned)grp[1] << 8 : 0) | (rem > 2 ? (unsigned)grp[2] : 0);
  if ((j == 3 && rem < 3) || (j == 2 && rem < 2))
    return '=';
  return spec_b64_char(v >> (6 * (3 - j)));
}
/* byte j (0..2) decoded from the 4-symbol group grp (padding symbols count as zero bits) */
static inline unsigned char spec_b64_dec_byte(const unsigned char *grp, int j)
{
  unsigned v = 0;
  for (int k = 0; k < 4; ++k)
    v |= (grp[k] == '=' ? 0u : (unsigned)spec_b64_index(grp[k])) << (6 * (3 - k));
  return (unsigned char)(v >> (8 * (2 - j)));
}
/* a well-formed base64 string of `len` symbols: a multiple of 4, alphabet symbols, at most two '=' and only at the very end */
static inline int spec_b64_wellformed(const unsigned char *s, int len, int maxlen)
{
  if (len < 0 || (len & 3) != 0)
    return 0;
  for (int i = 0; i < maxlen; ++i)
    if (i < len)
    {
      int pad_ok = s[i] == '=' && (i == len - 1 || (i == len - 2 && s[len - 1] == '='));
      if (spec_b64_index(s[i]) < 0 && !pad_ok)
        return 0;
    }
  return 1;
}
static inline int spec_b64_npad(const unsigned char *s, int len) { return len < 4 ? 0 : (s[len - 1] == '=' ? (s[len - 2] == '=' ? 2 : 1) : 0); }
/* the strings that are the encoding of some 16-byte value: 21 + 1 alphabet symbols followed by "==" */
static inline int spec_b64_is_key_string(const unsigned char *s)
{
  for (int i = 0; i < 22; ++i)
    if (spec_b64_index(s[i]) < 0)
      return 0;
  return s[22] == '=' && s[23] == '=';
}
#ifdef WV_CBMC
#pragma CPROVER check pop
#endif
#endif

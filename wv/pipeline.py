"""Proof pipeline for one obligation (DESIGN.md 2.5):
   harness.c -> goto-cc -> goto-instrument (unwind contract-less loops) -> goto-instrument --dfcc -> cbmc --json-ui"""
import json, os, re, resource, subprocess, time

VERIF = os.path.dirname(os.path.dirname(os.path.abspath(__file__)))
MEM_KB = 12 * 1024 * 1024
DEFAULT_SOLVER = os.environ.get('WV_SOLVER', 'kissat')
FIRST_TRY_S = 100
AUTO_SPLIT = 10


class Ob:
    """One proof obligation group = one CBMC run."""

    def __init__(self, name, props, enforce=None, replace=(), harness=None, entry=None, defines=(), contracts=(),
                 unwind=20, unwindset=None, timeout=300, flags=(), canary=True, bounded=None, note='', reveal=(),
                 tier='quick', solver=None, expect_fail=(), args=None, pre='', split=0, only_desc=None, skip_desc=None):
        self.name = name
        self.props = props if isinstance(props, (list, tuple)) else [props]
        self.enforce = enforce
        self.replace = list(replace)
        self.harness = harness        # C text of a lemma harness (must define the entry function) or None
        self.entry = entry or ('h_' + name)
        self.defines = list(defines) + ['WV_REVEAL_' + r for r in reveal]
        self.contracts = list(contracts)
        self.unwind = unwind
        self.unwindset = unwindset or {}
        self.timeout = timeout
        self.flags = list(flags)
        self.canary = canary
        self.bounded = bounded        # text describing the bound if this is a bounded stand-in, else None
        self.note = note
        self.tier = tier
        self.solver = solver
        self.expect_fail = list(expect_fail)   # obligation-id regexes that are known findings' raw failures
        self.args = args              # optional explicit harness body for the enforced call
        self.pre = pre
        self.only_desc = only_desc    # regex on the property description: check only these (besides the canary)
        self.skip_desc = skip_desc    # regex on the property description: these belong to another obligation group
        self.split = split            # > 0: check the properties in this many groups, in parallel (each group is sliced separately)


ENV_CONTRACTED = ('wv_fread', 'wv_fwrite', 'wv_fseek', 'wv_ftell', 'wv_feof', 'wv_fgetc', 'wv_ungetc', 'wv_fclose')
# stdio functions the proof environment has no model for: CBMC's built-in models of them do not fit the ghost FILE objects
UNMODELLED_STDIO = ('fputc', 'fputs', 'fgets', 'getc', 'putc', 'fscanf', 'fopen', 'freopen', 'setvbuf', 'fileno', 'tmpfile', 'clearerr', 'ferror', 'perror', 'fgetpos', 'fsetpos', 'ftello', 'fseeko')


def _limits():
    resource.setrlimit(resource.RLIMIT_AS, (MEM_KB * 1024, MEM_KB * 1024))


def run(cmd, timeout, cwd=None, out=None):
    t0 = time.time()
    # temporary files of the tools (CNF files for the external SAT solver, goto-cc scratch) go to the obligation's own directory,
    # which is removed with the run, and not to /tmp where a killed solver would leave them behind
    env = dict(os.environ)
    tmp = cwd or next((os.path.dirname(c) for c in cmd if isinstance(c, str) and '/out/run-' in c and os.path.isdir(os.path.dirname(c))), None)
    if tmp:
        env['TMPDIR'] = tmp
    try:
        p = subprocess.run(cmd, stdout=subprocess.PIPE, stderr=subprocess.PIPE, timeout=timeout, cwd=cwd, preexec_fn=_limits, env=env)
        return p.returncode, p.stdout.decode(errors='replace'), p.stderr.decode(errors='replace'), time.time() - t0
    except subprocess.TimeoutExpired as e:
        return -9, (e.stdout or b'').decode(errors='replace'), 'TIMEOUT after %ds' % timeout, time.time() - t0


# ---------------------------------------------------------------- loops with / without contracts in the generated C
def scan_loops(ctext):
    """returns {cbmc_line: has_contract} for every loop of the C text (cbmc reports the line of `for`/`while`, and for a
    do-while the line of its closing `while`)"""
    # strip comments and strings, keep newlines
    s = re.sub(r'/\*.*?\*/', lambda m: re.sub(r'[^\n]', ' ', m.group(0)), ctext, flags=re.S)
    s = re.sub(r'//[^\n]*', lambda m: ' ' * len(m.group(0)), s)
    s = re.sub(r'"(?:[^"\\\n]|\\.)*"', lambda m: '"' + ' ' * (len(m.group(0)) - 2) + '"', s)
    s = re.sub(r"'(?:[^'\\\n]|\\.)'", lambda m: "' '" if len(m.group(0)) == 3 else "'" + ' ' * (len(m.group(0)) - 2) + "'", s)
    line_of = lambda pos: s.count('\n', 0, pos) + 1
    loops = {}

    def match_paren(i):
        d = 0
        while i < len(s):
            if s[i] == '(':
                d += 1
            elif s[i] == ')':
                d -= 1
                if d == 0:
                    return i
            i += 1
        return -1

    def skip_ws(i):
        while i < len(s) and s[i].isspace():
            i += 1
        return i

    def skip_contract(i):
        has = False
        while True:
            i = skip_ws(i)
            m = re.match(r'__CPROVER_(loop_invariant|assigns|decreases)\s*\(', s[i:])
            if not m:
                return i, has
            has = True
            i = match_paren(i + m.end() - 1) + 1

    def skip_stmt(i):
        """position after the statement starting at i"""
        i = skip_ws(i)
        if s[i] == '{':
            d = 0
            while i < len(s):
                if s[i] == '{':
                    d += 1
                elif s[i] == '}':
                    d -= 1
                    if d == 0:
                        return i + 1
                i += 1
        m = re.match(r'(for|while|if|switch)\b', s[i:])
        if m:
            j = match_paren(s.index('(', i)) + 1
            j, _ = skip_contract(j)
            j = skip_stmt(j)
            if m.group(1) == 'if':
                k = skip_ws(j)
                if s.startswith('else', k) and not (s[k + 4].isalnum() or s[k + 4] == '_'):
                    return skip_stmt(k + 4)
            return j
        if re.match(r'do\b', s[i:]):
            j, _ = skip_contract(i + 2)
            j = skip_stmt(j)
            j = skip_ws(j)
            j = match_paren(s.index('(', j)) + 1
            return s.index(';', j) + 1
        d = 0
        while i < len(s):
            if s[i] in '([{':
                d += 1
            elif s[i] in ')]}':
                d -= 1
            elif s[i] == ';' and d == 0:
                return i + 1
            i += 1
        return i
    for m in re.finditer(r'\b(for|while|do)\b', s):
        kw = m.group(1)
        if kw == 'do':
            j, has = skip_contract(m.end())
            j = skip_stmt(j)
            j = skip_ws(j)
            if s.startswith('while', j):
                loops[line_of(j)] = has
                loops[('dowhile', line_of(j))] = True
        else:
            if kw == 'while' and ('dowhile', line_of(m.start())) in loops:
                continue
            p = s.find('(', m.end())
            if p < 0:
                continue
            e = match_paren(p)
            _, has = skip_contract(e + 1)
            if kw == 'while':
                # the closing while of a do-while: followed by ';'
                k = skip_ws(e + 1)
                if k < len(s) and s[k] == ';' and line_of(m.start()) in loops:
                    continue
            loops[line_of(m.start())] = has
    return {k: v for k, v in loops.items() if not isinstance(k, tuple)}


NOCHECK_PUSH = '#pragma CPROVER check push\n' + ''.join('#pragma CPROVER check disable "%s"\n' % c for c in (
    'bounds', 'pointer', 'signed-overflow', 'unsigned-overflow', 'conversion', 'undefined-shift', 'pointer-overflow',
    'pointer-primitive', 'div-by-zero'))
NOCHECK_POP = '\n#pragma CPROVER check pop\n'


def harness_for(meta, ob):
    """auto-generated harness: call the enforced function with unconstrained arguments (the contract's requires
    clause constrains them), then a canary that must be reachable"""
    if ob.harness is not None:
        # the harness text is ours: CBMC's automatic checks stay on in the repository's functions only
        return NOCHECK_PUSH + ob.harness + NOCHECK_POP
    f = meta['funcs'].get(ob.enforce)
    if f is None:
        raise KeyError(ob.enforce)
    sig = f['sig']
    m = re.match(r'^(?:static\s+)?(.*?)\s*\b(\w+)\((.*)\)$', sig, re.S)
    rt, name, params = m.group(1).strip(), m.group(2), m.group(3).strip()
    decls, args = [], []
    if params and params != 'void':
        for i, p in enumerate(split_params(params)):
            p = p.strip()
            mm = re.match(r'^(.*?)(\w+)((\[\w*\])*)$', p)
            ty, an, suf = mm.group(1).strip(), mm.group(2), mm.group(3)
            ty = re.sub(r'\bconst\b', '', ty).strip()
            if suf:
                ty += ' *'
            decls.append('  %s wv_a%d;' % (ty, i))
            args.append('wv_a%d' % i)
    body = ob.args if ob.args else '  %s(%s);' % (name, ', '.join(args))
    can = '  __CPROVER_assert(0, "WV_CANARY");\n' if ob.canary else ''
    return '%s\nvoid %s(void)\n{\n%s\n%s\n%s}\n' % (ob.pre, ob.entry, '\n'.join(decls), body, can)


def split_params(s):
    out, d, cur = [], 0, ''
    for ch in s:
        if ch in '([':
            d += 1
        elif ch in ')]':
            d -= 1
        if ch == ',' and d == 0:
            out.append(cur)
            cur = ''
        else:
            cur += ch
    if cur.strip():
        out.append(cur)
    return out


def _run_ob(ob, gen_dir, work, meta):
    """returns a result dict: status in {discharged, failed, undecided}, obligations, failures[], seconds, ..."""
    d = os.path.join(work, 'ob_' + ob.name)
    os.makedirs(d, exist_ok=True)
    res = {'name': ob.name, 'props': ob.props, 'enforce': ob.enforce, 'replace': ob.replace, 'status': 'undecided',
           'obligations': 0, 'failed': [], 'seconds': 0.0, 'reason': '', 'bounded': ob.bounded, 'note': ob.note,
           'canary': None, 'backend': ob.solver or 'cbmc built-in SAT (minisat2)', 'defines': ob.defines}
    t0 = time.time()
    try:
        hs = harness_for(meta, ob)
    except KeyError as e:
        res['reason'] = 'function %s is not in the extracted program (renamed, removed or extraction break: %s)' % (
            e, meta.get('breaks', {}).get(str(e).strip("'"), 'not found'))
        return res
    src = os.path.join(d, 'h.c')
    cfiles = ''.join('#include "%s"\n' % c for c in ob.contracts)
    with open(os.path.join(d, 'contracts_all.h'), 'w') as f:
        f.write(cfiles)
    with open(src, 'w') as f:
        f.write('#define WV_CONTRACTS "contracts_all.h"\n#include "wencry.c"\n' + hs)
    inc = ['-I' + gen_dir, '-I' + os.path.join(VERIF, 'env'), '-I' + os.path.join(VERIF, 'spec'),
           '-I' + os.path.join(VERIF, 'contracts'), '-I' + d]
    defs = ['-D' + x for x in ['WV_CBMC'] + ob.defines + ([] if 'WV_CLI' in ob.defines else ['WV_NO_CLI'])]
    a, b, c = [os.path.join(d, x) for x in ('a.gb', 'b.gb', 'c.gb')]
    rc, so, se, _ = run(['goto-cc', '--function', ob.entry] + inc + defs + [src, '-o', a], 120)
    if rc != 0:
        res['reason'] = 'goto-cc failed: ' + (se or so)[-1500:]
        return res
    # ghost globals and the repository's globals start with arbitrary values (contracts must state what they need);
    # const tables keep their initialisers
    a0 = os.path.join(d, 'a0.gb')
    os.rename(a, a0)
    rc, so, se, _ = run(['goto-instrument', '--nondet-static', a0, a], 120)
    if rc != 0:
        res['reason'] = 'nondet-static failed: ' + (se or so)[-500:]
        return res
    # slice: bodies of repository functions that are not reachable from the harness (not looking through the callees that are
    # replaced by their contracts) are removed; specification and ghost helpers referenced only from contract clauses stay
    rc, so, se, _ = run(['goto-instrument', '--reachable-call-graph', a], 120)
    edges = {}
    for ln in so.split('\n'):
        if ' -> ' in ln:
            x, y = ln.strip().split(' -> ')
            edges.setdefault(x, set()).add(y)
    reach, todo = set(), [ob.entry]
    while todo:
        f = todo.pop()
        if f in reach:
            continue
        reach.add(f)
        if f in ob.replace:
            continue
        todo += list(edges.get(f, ()))
    # environment functions that are represented by a contract only (contracts/file.h): whenever one is reachable it is replaced by
    # its contract, also when the obligation's own list does not name it (a change to the repository may call one it did not call before)
    replace = list(ob.replace) + [f for f in sorted(reach) if f in ENV_CONTRACTED and f not in ob.replace and f != ob.enforce]
    res['replace'] = replace
    drop = [f for f in meta['funcs'] if f not in reach and f != ob.enforce]
    if drop:
        a1 = os.path.join(d, 'a1.gb')
        cmdr = ['goto-instrument']
        for f in drop:
            cmdr += ['--remove-function-body', f]
        rc, so, se, _ = run(cmdr + [a, a1], 300)
        if rc == 0:
            a = a1
    res['sliced_away'] = len(drop)
    # Result cache (bin/check sets CACHE): a group that was *discharged* is not solved again when everything its verdict depends on is
    # byte-identical: the generated C text of every repository function reachable from the harness (after preprocessing and extraction,
    # so a changed macro or in-place annotation changes it), all type / global / helper declarations, the contract, environment and
    # specification files, the machinery, and the group's configuration.  Failed and undecided results are never stored.
    if CACHE:
        import hashlib
        h = hashlib.sha256()
        h.update(CACHE[1].encode())
        h.update(meta.get('decl_sha256', '').encode())
        h.update(repr(sorted((k, repr(v)) for k, v in vars(ob).items() if k != 'props')).encode())
        for f in sorted(reach | {ob.enforce or ''}):
            if f in meta['funcs']:
                h.update(f.encode())
                h.update(meta['funcs'][f].get('gen_sha', '').encode())
        res['cache_key'] = h.hexdigest()
        path = os.path.join(CACHE[0], res['cache_key'] + '.json')
        if os.path.exists(path) and time.time() - os.path.getmtime(path) < 86400:
            try:
                r_ = json.load(open(path))
                r_['props'] = ob.props
                r_['cached'] = True
                return r_
            except Exception:
                pass
    # loops: unwind those without a loop contract
    rc, so, se, _ = run(['goto-instrument', '--show-loops', '--json-ui', a], 120)
    loops = []
    try:
        for blk in json.loads(so):
            if isinstance(blk, dict) and 'loops' in blk:
                loops = blk['loops']
    except Exception:
        res['reason'] = 'cannot list loops: ' + (se or so)[-500:]
        return res
    ctext = {}
    uw = []
    contract_loops = []
    for lp in loops:
        loc = lp.get('sourceLocation', {})
        fn = loc.get('file', '')
        path = fn if os.path.isabs(fn) else os.path.join(loc.get('workingDirectory', d), fn)
        if '<builtin' in fn or not os.path.exists(path):
            uw.append('%s:%d' % (lp['name'], ob.unwindset.get(lp['name'], ob.unwind)))
            continue
        if path not in ctext:
            ctext[path] = scan_loops(open(path).read())
        has = ctext[path].get(int(loc.get('line', 0)))
        if has is None:
            # a loop that comes from a macro of the ghost/spec headers has no loop keyword on its line: it carries no contract
            srcline = open(path).read().split('\n')[int(loc.get('line', 1)) - 1]
            if re.search(r'\b(for|while|do)\b', srcline):
                res['reason'] = 'loop %s at %s:%s not found by the loop scanner' % (lp['name'], fn, loc.get('line'))
                return res
            has = False
        if has:
            contract_loops.append(lp['name'])
        else:
            uw.append('%s:%d' % (lp['name'], ob.unwindset.get(lp['name'], ob.unwindset.get(lp['name'].split('.')[0], ob.unwind))))
    res['loops_unwound'] = uw
    res['loops_by_contract'] = contract_loops
    cur = a
    if uw:
        rc, so, se, _ = run(['goto-instrument', '--unwindset', ','.join(uw), '--unwinding-assertions', a, b], 300)
        if rc != 0:
            res['reason'] = 'unwinding failed: ' + (se or so)[-800:]
            return res
        cur = b
    # a pure lemma harness (nothing enforced or replaced) does not reach the annotated loops of the repository's functions
    if ob.enforce or replace:
        cmd = ['goto-instrument', '--dfcc', ob.entry]
        if ob.enforce:
            cmd += ['--enforce-contract', ob.enforce]
        for r in replace:
            cmd += ['--replace-call-with-contract', r]
        if contract_loops:
            cmd += ['--apply-loop-contracts']
        rc, so, se, _ = run(cmd + [cur, c], 600)
        if rc != 0:
            res['reason'] = 'contract instrumentation failed: ' + (se or so)[-1500:]
            return res
        cur = c
    cmd = ['cbmc', cur, '--json-ui', '--trace', '--object-bits', '12', '--drop-unused-functions'] + ob.flags
    solver = ob.solver or DEFAULT_SOLVER
    if solver == 'z3':
        cmd += ['--z3']
    elif solver == 'kissat':
        cmd += ['--external-sat-solver', 'kissat']
    res['backend'] = {'kissat': 'CBMC bit-blasting + kissat (external SAT solver)', 'minisat': 'CBMC built-in SAT (MiniSat 2.2.1)',
                      'z3': 'CBMC SMT2 + z3 4.8.12'}[solver]
    # The vacuity canary is a property that must FAIL.  With an external (non-incremental) SAT solver every failing property
    # costs one more full solver call, so the canary is checked in its own (cheap, satisfiable) run and the main run -- all
    # other properties -- needs exactly one solver call when everything holds.  With split > 1 the other properties are
    # further partitioned into groups that are sliced and solved separately, in parallel.
    split = max(ob.split, 1)
    rc, so, se, _ = run(['cbmc', cur, '--object-bits', '12', '--drop-unused-functions', '--show-properties', '--json-ui'], 300)
    names, canaries = [], []
    try:
        for blk in json.loads(so):
            if isinstance(blk, dict) and 'properties' in blk:
                for p in blk['properties']:
                    ds = p.get('description', '')
                    if 'WV_CANARY' in ds:
                        canaries.append(p['name'])
                    elif (ob.only_desc and not re.search(ob.only_desc, ds)) or (ob.skip_desc and re.search(ob.skip_desc, ds)):
                        res['properties_left_to_other_groups'] = res.get('properties_left_to_other_groups', 0) + 1
                    else:
                        names.append(p['name'])
    except Exception:
        pass
    if not names:
        res['reason'] = 'cannot list properties: ' + (se or so)[-300:]
        return res
    if True:
        groups = [names[i::split] for i in range(split)] + ([canaries] if canaries else [])
        import concurrent.futures

        def one(g):
            c2 = list(cmd)
            for n_ in g:
                c2 += ['--property', n_]
            return run(c2, ob.timeout)
        with concurrent.futures.ThreadPoolExecutor(max_workers=split + 1) as ex:
            outs = list(ex.map(one, [g for g in groups if g]))
        res['seconds'] = round(time.time() - t0, 1)
        res['solver_seconds'] = round(sum(o[3] for o in outs), 1)
        res['split_groups'] = len(outs)
        merged = []
        for (rc, so, se, secs) in outs:
            if rc == -9:
                res['reason'] = 'solver timeout after %ds (split mode)' % ob.timeout
                return res
            try:
                js1 = json.loads(so)
            except Exception:
                res['reason'] = 'cbmc produced no parsable result in split mode (rc=%s): %s' % (rc, (se or so)[-400:])
                return res
            got = False
            for blk in js1:
                if isinstance(blk, dict) and 'result' in blk:
                    merged += blk['result']
                    got = True
                if isinstance(blk, dict) and blk.get('messageType') == 'ERROR' and not res['reason']:
                    res['reason'] = 'cbmc error: ' + blk.get('messageText', '')[:400]
            if not got:
                if not res['reason']:
                    res['reason'] = 'cbmc gave no result block in split mode'
                return res
        # properties the external solver could not decide (it is not incremental and, measured, runs out of memory on some
        # satisfiable instances: status ERROR) are decided again by CBMC's built-in MiniSat
        err = [r_.get('property') for r_ in merged if r_.get('status') == 'ERROR']
        if err and solver != 'minisat':
            base_cmd = [c_ for c_ in cmd if c_ not in ('--external-sat-solver', 'kissat')]
            rc, so2, se2, secs2 = run(base_cmd + [x for n_ in err for x in ('--property', n_)], ob.timeout)
            res['solver_seconds'] += round(secs2, 1)
            res['fallback_minisat_properties'] = len(err)
            if rc == -9:
                res['reason'] = 'solver timeout after %ds (built-in SAT fall-back for %d properties the external solver left undecided)' % (ob.timeout, len(err))
                return res
            try:
                again = [r_ for blk in json.loads(so2) if isinstance(blk, dict) and 'result' in blk for r_ in blk['result']]
            except Exception:
                again = []
            if again:
                done = {r_.get('property') for r_ in again}
                merged = [r_ for r_ in merged if r_.get('property') not in done] + again
                if all(r_.get('status') != 'ERROR' for r_ in merged):
                    res['reason'] = ''
        js = [{'result': merged}]
        so = json.dumps(js)
        open(os.path.join(d, 'cbmc.json'), 'w').write(so)
    results = None
    for blk in js:
        if isinstance(blk, dict) and 'result' in blk:
            results = blk['result']
        if isinstance(blk, dict) and blk.get('messageType') == 'ERROR' and not res['reason']:
            res['reason'] = 'cbmc error: ' + blk.get('messageText', '')[:600]
    if results is None:
        if not res['reason']:
            res['reason'] = 'cbmc gave no result block (rc=%s) %s' % (rc, se[-300:])
        return res
    if 'out of memory' not in res['reason']:
        res['reason'] = ''
    if 'ignoring' in so and 'quantifier' in so:
        res['reason'] = 'quantifier ignored by the back end'
        return res
    n = 0
    failed = []
    unwind_fail = []
    unmodelled = []
    unknown = ''
    for r in results:
        desc = r.get('description', '')
        if desc == 'WV_CANARY' or 'WV_CANARY' in desc:
            res['canary'] = (r['status'] == 'FAILURE')
            continue
        n += 1
        if r['status'] == 'FAILURE':
            item = {'id': r.get('property'), 'description': desc, 'line': r.get('sourceLocation', {}).get('line'),
                    'function': r.get('sourceLocation', {}).get('function'), 'trace': trace_inputs(r.get('trace', []))}
            if 'unwinding assertion' in desc:
                unwind_fail.append(item)
            elif 'undefined function should be unreachable' in desc or item['function'] in UNMODELLED_STDIO:
                # a call of a function that has neither a body nor a contract in the proof environment decides nothing about the property
                unmodelled.append(item)
            else:
                failed.append(item)
        elif r['status'] not in ('SUCCESS',):
            unknown = 'status %s for %s' % (r['status'], r.get('property'))
    res['obligations'] = n
    if ob.canary and res['canary'] is not True:
        res['status'] = 'undecided'
        res['reason'] = 'vacuity guard: the canary after the call is not reachable (contradictory precondition or environment)'
        res['failed'] = failed
        return res
    if unmodelled and not failed:
        res['status'] = 'undecided'
        res['reason'] = 'the code reaches a function that has neither a body nor a contract in the proof environment (%s in %s): not decided' % (
            unmodelled[0]['id'], unmodelled[0]['function'])
        return res
    if unwind_fail and not failed:
        res['status'] = 'undecided'
        res['reason'] = 'unwinding assertion failed (loop bound exceeds the configured unwinding): ' + unwind_fail[0]['id']
        return res
    if res['reason']:
        return res
    res['failed'] = failed
    if not failed and unknown:
        res['reason'] = unknown
        return res
    res['status'] = 'failed' if failed else 'discharged'
    return res


CACHE = None   # (directory, hash of the files under contracts/ env/ spec/ wv/), set by bin/check unless WV_NO_CACHE is set


def run_ob(ob, gen_dir, work, meta):
    res = _run_ob(ob, gen_dir, work, meta)
    if CACHE and res.get('status') == 'discharged' and res.get('cache_key') and not res.get('cached'):
        try:
            json.dump(res, open(os.path.join(CACHE[0], res['cache_key'] + '.json'), 'w'))
        except Exception:
            pass
    return res


def trace_inputs(trace):
    """reduce a CBMC trace to assignments worth showing (inputs, ghost variables and state at the failure)"""
    out = []
    for st in trace:
        if st.get('stepType') == 'assignment' and not st.get('hidden'):
            lhs = st.get('lhs', '')
            fn = st.get('sourceLocation', {}).get('function') or ''
            if lhs.startswith('__CPROVER') or lhs.startswith('return_value') or '$' in lhs and 'tmp' in lhs:
                continue
            # bookkeeping of the contract instrumentation (write sets, conditional address ranges) says nothing about the program
            if fn.startswith('__CPROVER_contracts') or lhs.startswith(('__', 'car', 'write_set', 'set', 'ptr', 'elem')) or 'write_set' in lhs or '__car' in lhs:
                continue
            v = st.get('value', {})
            val = v.get('data', v.get('name'))
            if val is None and 'elements' in v:
                val = '{...}'
            out.append({'lhs': lhs, 'value': val, 'fn': st.get('sourceLocation', {}).get('function'),
                        'line': st.get('sourceLocation', {}).get('line')})
    return out[-400:]

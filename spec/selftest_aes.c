/* native validation of aes_spec.h against FIPS-197 Appendix B and C.1 (run at every check) */
#include <stdio.h>
#include <string.h>
#include "aes_spec.h"
static void expand(const unsigned char *key, wv_u128 *K) { K[0] = spec_load(key); for (int r = 1; r < 11; ++r) K[r] = spec_nextkey(K[r - 1], r); }
static int check(const char *name, const unsigned char *key, const unsigned char *pt, const unsigned char *ct)
{
  wv_u128 K[11];
  expand(key, K);
  wv_u128 c = spec_cipher(spec_load(pt), K), p = spec_invcipher(spec_load(ct), K);
  wv_u128 c11 = SPEC_CIPHER11(spec_load(pt), K[0], K[1], K[2], K[3], K[4], K[5], K[6], K[7], K[8], K[9], K[10]);
  int bad = 0;
  for (int i = 0; i < 16; ++i)
    if (spec_store_byte(c, i) != ct[i] || spec_store_byte(p, i) != pt[i] || spec_store_byte(c11, i) != ct[i])
      bad = 1;
  if (bad)
    printf("FAIL %s\n", name);
  return bad;
}
int main(void)
{
  static const unsigned char kB[16] = {0x2b, 0x7e, 0x15, 0x16, 0x28, 0xae, 0xd2, 0xa6, 0xab, 0xf7, 0x15, 0x88, 0x09, 0xcf, 0x4f, 0x3c};
  static const unsigned char pB[16] = {0x32, 0x43, 0xf6, 0xa8, 0x88, 0x5a, 0x30, 0x8d, 0x31, 0x31, 0x98, 0xa2, 0xe0, 0x37, 0x07, 0x34};
  static const unsigned char cB[16] = {0x39, 0x25, 0x84, 0x1d, 0x02, 0xdc, 0x09, 0xfb, 0xdc, 0x11, 0x85, 0x97, 0x19, 0x6a, 0x0b, 0x32};
  unsigned char kC[16], pC[16];
  static const unsigned char cC[16] = {0x69, 0xc4, 0xe0, 0xd8, 0x6a, 0x7b, 0x04, 0x30, 0xd8, 0xcd, 0xb7, 0x80, 0x70, 0xb4, 0xc5, 0x5a};
  for (int i = 0; i < 16; ++i) { kC[i] = (unsigned char)i; pC[i] = (unsigned char)(i * 0x11); }
  int bad = check("FIPS-197 Appendix B", kB, pB, cB) | check("FIPS-197 Appendix C.1", kC, pC, cC);
  if (spec_sbox(0x00) != 0x63 || spec_sbox(0x53) != 0xed || spec_isbox(0x63) != 0 || spec_rcon(10) != 0x36 || spec_rcon(9) != 0x1b) { printf("FAIL sbox/rcon\n"); bad = 1; }
  /* last round key of Appendix A.1: d014f9a8 c9ee2589 e13f0cc8 b6630ca6 */
  wv_u128 K[11]; expand(kB, K);
  static const unsigned char k10[16] = {0xd0, 0x14, 0xf9, 0xa8, 0xc9, 0xee, 0x25, 0x89, 0xe1, 0x3f, 0x0c, 0xc8, 0xb6, 0x63, 0x0c, 0xa6};
  for (int i = 0; i < 16; ++i) if (spec_store_byte(K[10], i) != k10[i]) { printf("FAIL key expansion A.1\n"); bad = 1; break; }
  printf("aes_spec vectors=4 %s\n", bad ? "FAILED" : "ok");
  return bad;
}

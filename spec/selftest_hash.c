/* native validation of hash_spec.h: full digests assembled from the spec's round functions and padding rule.
   mode 1 (no args or "vectors"): FIPS 180-4 / RFC 1321 known answers.  mode 2 ("gen" seed n): print digests of n pseudo-random
   messages (LCG) of lengths 0..n-1 for the differential run against Python hashlib. */
#include <stdio.h>
#include <stdlib.h>
#include <string.h>
#include "hash_spec.h"
#include "hash_spec_digest.h"
#define sha256 spec_sha256_digest
#define sha1 spec_sha1_digest
#define md5 spec_md5_digest
static void hex(const unsigned char *d, int n, char *o) { for (int i = 0; i < n; ++i) sprintf(o + 2 * i, "%02x", d[i]); }
static int kat(const char *alg, const char *msg, const char *want)
{
  unsigned char d[32]; char h[65]; size_t n = strlen(msg);
  if (!strcmp(alg, "sha256")) { sha256((const unsigned char *)msg, n, d); hex(d, 32, h); }
  else if (!strcmp(alg, "sha1")) { sha1((const unsigned char *)msg, n, d); hex(d, 20, h); }
  else { md5((const unsigned char *)msg, n, d); hex(d, 16, h); }
  if (strcmp(h, want)) { printf("FAIL %s(\"%s\") = %s\n", alg, msg, h); return 1; }
  return 0;
}
int main(int argc, char **argv)
{
  if (argc > 3 && !strcmp(argv[1], "gen"))
  {
    unsigned long long x = strtoull(argv[2], 0, 10) * 2862933555777941757ULL + 3037000493ULL; int n = atoi(argv[3]);
    unsigned char *m = malloc(n + 1), d[32]; char h[65];
    for (int len = 0; len < n; ++len)
    {
      for (int i = 0; i < len; ++i) { x = x * 6364136223846793005ULL + 1442695040888963407ULL; m[i] = (unsigned char)(x >> 56); }
      sha1(m, len, d); hex(d, 20, h); printf("sha1 %d %s\n", len, h);
      md5(m, len, d); hex(d, 16, h); printf("md5 %d %s\n", len, h);
      sha256(m, len, d); hex(d, 32, h); printf("sha256 %d %s\n", len, h);
    }
    return 0;
  }
  int bad = 0;
  const char *m56 = "abcdbcdecdefdefgefghfghighijhijkijkljklmklmnlmnomnopnopq";
  bad |= kat("sha1", "abc", "a9993e364706816aba3e25717850c26c9cd0d89d") | kat("sha1", "", "da39a3ee5e6b4b0d3255bfef95601890afd80709");
  bad |= kat("sha1", m56, "84983e441c3bd26ebaae4aa1f95129e5e54670f1");
  bad |= kat("sha256", "abc", "ba7816bf8f01cfea414140de5dae2223b00361a396177a9cb410ff61f20015ad");
  bad |= kat("sha256", "", "e3b0c44298fc1c149afbf4c8996fb92427ae41e4649b934ca495991b7852b855");
  bad |= kat("sha256", m56, "248d6a61d20638b8e5c026930c3e6039a33ce45964ff2167f6ecedd419db06c1");
  bad |= kat("md5", "", "d41d8cd98f00b204e9800998ecf8427e") | kat("md5", "abc", "900150983cd24fb0d6963f7d28e17f72");
  bad |= kat("md5", "message digest", "f96b697d7cb7938d525a2f31aaf161d0");
  bad |= kat("md5", "12345678901234567890123456789012345678901234567890123456789012345678901234567890", "57edf4a22be3c955ac49da2e2107b67a");
  printf("hash_spec vectors=10 %s\n", bad ? "FAILED" : "ok");
  return bad;
}

// Replay for the hash obligations: the real SHA-1 / MD5 / SHA-256 classes of /repo (string and file entry points)
// against digests assembled from the FIPS 180-4 / RFC 1321 specification library.
// usage: hash_replay <seed> <maxlen> [big]   exit 1 = failing message printed; 0 = none found
#include "hashmaster.h"
#include <stdio.h>
#include <stdlib.h>
#include <string.h>
#include <vector>
extern "C" {
#include "hash_spec_digest.h"
}
static const char *NAMES[3] = {"sha1", "md5", "sha256"};
static const int HLEN[3] = {20, 16, 32};
static void spec(int alg, const u8_t *m, size_t n, u8_t *out)
{
  if (alg == 0) spec_sha1_digest(m, n, out); else if (alg == 1) spec_md5_digest(m, n, out); else spec_sha256_digest(m, n, out);
}
static int check(int alg, const u8_t *m, size_t n, bool file)
{
  HashFactory hf;
  Hashmaster *h = hf.getHasher(hf.getType(alg));
  u8_t got[32], want[32];
  if (!file)
    h->getStringHash(m, (u32_t)n, got);
  else
  {
    FILE *fp = tmpfile();
    fwrite(m, 1, n, fp);
    rewind(fp);
    filebuffer64 *b = new filebuffer64(fp);
    h->getFileHash(b, got);
    delete b;
    fclose(fp);
  }
  spec(alg, m, n, want);
  if (memcmp(got, want, HLEN[alg]))
  {
    printf("FAILING INPUT: %s via %s, message length %zu (length mod 64 = %zu), first bytes", NAMES[alg], file ? "file buffer" : "string", n, n % 64);
    for (size_t i = 0; i < n && i < 8; ++i) printf(" %02x", m[i]);
    printf("; real digest ");
    for (int i = 0; i < HLEN[alg]; ++i) printf("%02x", got[i]);
    printf(" standard digest ");
    for (int i = 0; i < HLEN[alg]; ++i) printf("%02x", want[i]);
    printf("\n");
    return 1;
  }
  return 0;
}
int main(int argc, char **argv)
{
  unsigned seed = argc > 1 ? atoi(argv[1]) : 1;
  size_t maxlen = argc > 2 ? atoi(argv[2]) : 300;
  srand(seed);
  std::vector<u8_t> m(maxlen + 1);
  for (size_t n = 0; n <= maxlen; ++n)
  {
    for (size_t i = 0; i < n; ++i) m[i] = rand();
    for (int alg = 0; alg < 3; ++alg)
      if (check(alg, m.data(), n, false) || check(alg, m.data(), n, true))
        return 1;
  }
  if (argc > 3)
  { // the 2^32-bit counter: a message of 2^29 + 3 bytes
    size_t n = (1ull << 29) + 3;
    std::vector<u8_t> big(n, 0x61);
    for (int alg = 0; alg < 3; ++alg)
      if (check(alg, big.data(), n, false))
        return 1;
  }
  printf("no failing message among lengths 0..%zu (three algorithms, both entry points)%s\n", maxlen, argc > 3 ? " and 2^29+3 bytes" : "");
  return 0;
}

/* Contracts for kernel/multi_aes/aes/aes.cpp (C09).  Names are the extractor's. */
#ifndef WV_C_AES_H
#define WV_C_AES_H
#define WV_ST(p) ((((wv_u128)(p)->datah) << 64) | (wv_u128)(p)->datal)
#define WV_ST_OLD(p) ((((wv_u128)__CPROVER_old((p)->datah)) << 64) | (wv_u128)__CPROVER_old((p)->datal))
/* a pointer that is either a fresh object (when the contract is enforced) or readable memory of the caller */
#define WV_RD(p, n) __CPROVER_is_fresh(p, n)

/* ---- step functions against FIPS-197 (pattern P-A, complete: all 2^128 states) */
void addroundkey(state_t *w, const state_t *key)
__CPROVER_requires(__CPROVER_is_fresh(w, sizeof(*w)) && WV_RD(key, sizeof(*key)))
__CPROVER_assigns(*w)
__CPROVER_ensures(WV_ST(w) == (WV_ST_OLD(w) ^ WV_ST(key)));

void encryaes_subbytes(state_t *w)
__CPROVER_requires(__CPROVER_is_fresh(w, sizeof(*w)))
__CPROVER_assigns(*w)
__CPROVER_ensures(WV_ST(w) == spec_subbytes(WV_ST_OLD(w)));

void encryaes_rowshift(state_t *w)
__CPROVER_requires(__CPROVER_is_fresh(w, sizeof(*w)))
__CPROVER_assigns(*w)
__CPROVER_ensures(WV_ST(w) == spec_shiftrows(WV_ST_OLD(w)));

void encryaes_columnmix(state_t *w)
__CPROVER_requires(__CPROVER_is_fresh(w, sizeof(*w)))
__CPROVER_assigns(*w)
__CPROVER_ensures(WV_ST(w) == spec_mixcolumns(WV_ST_OLD(w)));

void decryaes_subbytes(state_t *w)
__CPROVER_requires(__CPROVER_is_fresh(w, sizeof(*w)))
__CPROVER_assigns(*w)
__CPROVER_ensures(WV_ST(w) == spec_invsubbytes(WV_ST_OLD(w)));

void decryaes_rowshift(state_t *w)
__CPROVER_requires(__CPROVER_is_fresh(w, sizeof(*w)))
__CPROVER_assigns(*w)
__CPROVER_ensures(WV_ST(w) == spec_invshiftrows(WV_ST_OLD(w)));

void decryaes_columnmix(state_t *w)
__CPROVER_requires(__CPROVER_is_fresh(w, sizeof(*w)))
__CPROVER_assigns(*w)
__CPROVER_ensures(WV_ST(w) == spec_invmixcolumns(WV_ST_OLD(w)));

/* ---- rounds: composition of the steps in FIPS order (spec_* are opaque unless WV_REVEAL_AES) */
void encryaes_commonround(state_t *w, const state_t *k)
__CPROVER_requires(__CPROVER_is_fresh(w, sizeof(*w)) && WV_RD(k, sizeof(*k)))
__CPROVER_assigns(*w)
__CPROVER_ensures(WV_ST(w) == spec_encround(WV_ST_OLD(w), WV_ST(k)));

void encryaes_specround(state_t *w, const state_t *k1, const state_t *k2)
__CPROVER_requires(__CPROVER_is_fresh(w, sizeof(*w)) && WV_RD(k1, sizeof(*k1)) && WV_RD(k2, sizeof(*k2)))
__CPROVER_assigns(*w)
__CPROVER_ensures(WV_ST(w) == spec_enclast(WV_ST_OLD(w), WV_ST(k1), WV_ST(k2)));

void decryaes_commonround(state_t *w, const state_t *k)
__CPROVER_requires(__CPROVER_is_fresh(w, sizeof(*w)) && WV_RD(k, sizeof(*k)))
__CPROVER_assigns(*w)
__CPROVER_ensures(WV_ST(w) == spec_decround(WV_ST_OLD(w), WV_ST(k)));

void decryaes_specround(state_t *w, const state_t *k1, const state_t *k2)
__CPROVER_requires(__CPROVER_is_fresh(w, sizeof(*w)) && WV_RD(k1, sizeof(*k1)) && WV_RD(k2, sizeof(*k2)))
__CPROVER_assigns(*w)
__CPROVER_ensures(WV_ST(w) == spec_decfirst(WV_ST_OLD(w), WV_ST(k1), WV_ST(k2)));

/* ---- key schedule */
#define WV_KS_STEP(kh, r) (WV_ST(&(kh)->key[r]) == spec_nextkey(WV_ST(&(kh)->key[(r) - 1]), (r)))
/* representation invariant of a key schedule: key[0] is the cipher key in state layout, key[r] follows from key[r-1] */
#define WV_KS_OK(kh) (WV_ST(&(kh)->key[0]) == spec_load((kh)->init_key) && WV_KS_STEP(kh, 1) && WV_KS_STEP(kh, 2) && \
  WV_KS_STEP(kh, 3) && WV_KS_STEP(kh, 4) && WV_KS_STEP(kh, 5) && WV_KS_STEP(kh, 6) && WV_KS_STEP(kh, 7) && \
  WV_KS_STEP(kh, 8) && WV_KS_STEP(kh, 9) && WV_KS_STEP(kh, 10))

void aeshandle__keyhandle__genkey(aeshandle__keyhandle *this, int round)
__CPROVER_requires(__CPROVER_is_fresh(this, sizeof(*this)) && 1 <= round && round <= 10)
__CPROVER_assigns(this->key[round])
__CPROVER_ensures(WV_KS_STEP(this, round));

const state_t *aeshandle__keyhandle__get_key(aeshandle__keyhandle *this, int round)
__CPROVER_requires(WV_RD(this, sizeof(*this)) && 0 <= round && round <= 10)
__CPROVER_assigns()
__CPROVER_ensures(__CPROVER_return_value == &this->key[round]);

/* ---- the block functions: load (FIPS-197 3.4), Cipher / InvCipher as a composition of rounds, store */
#define WV_K(a, r) WV_ST(&(a)->key.key[r])
#define WV_AES_ENC_SPEC(a, in) SPEC_CIPHER11(in, WV_K(a, 0), WV_K(a, 1), WV_K(a, 2), WV_K(a, 3), WV_K(a, 4), WV_K(a, 5), \
  WV_K(a, 6), WV_K(a, 7), WV_K(a, 8), WV_K(a, 9), WV_K(a, 10))
#define WV_AES_DEC_SPEC(a, in) SPEC_INVCIPHER11(in, WV_K(a, 0), WV_K(a, 1), WV_K(a, 2), WV_K(a, 3), WV_K(a, 4), WV_K(a, 5), \
  WV_K(a, 6), WV_K(a, 7), WV_K(a, 8), WV_K(a, 9), WV_K(a, 10))
/* a 16-byte block as a packed state: byte in[r + 4c] is s[r][c] (FIPS-197 3.4), s[r][c] sits at bit 8*(4r+c) */
#define WV_BLK(w) ( \
  ((wv_u128)(w)[0] << 0) | ((wv_u128)(w)[4] << 8) | ((wv_u128)(w)[8] << 16) | ((wv_u128)(w)[12] << 24) | \
  ((wv_u128)(w)[1] << 32) | ((wv_u128)(w)[5] << 40) | ((wv_u128)(w)[9] << 48) | ((wv_u128)(w)[13] << 56) | \
  ((wv_u128)(w)[2] << 64) | ((wv_u128)(w)[6] << 72) | ((wv_u128)(w)[10] << 80) | ((wv_u128)(w)[14] << 88) | \
  ((wv_u128)(w)[3] << 96) | ((wv_u128)(w)[7] << 104) | ((wv_u128)(w)[11] << 112) | ((wv_u128)(w)[15] << 120))
#define WV_BLK_OLD(w) ( \
  ((wv_u128)__CPROVER_old((w)[0]) << 0) | ((wv_u128)__CPROVER_old((w)[4]) << 8) | ((wv_u128)__CPROVER_old((w)[8]) << 16) | ((wv_u128)__CPROVER_old((w)[12]) << 24) | \
  ((wv_u128)__CPROVER_old((w)[1]) << 32) | ((wv_u128)__CPROVER_old((w)[5]) << 40) | ((wv_u128)__CPROVER_old((w)[9]) << 48) | ((wv_u128)__CPROVER_old((w)[13]) << 56) | \
  ((wv_u128)__CPROVER_old((w)[2]) << 64) | ((wv_u128)__CPROVER_old((w)[6]) << 72) | ((wv_u128)__CPROVER_old((w)[10]) << 80) | ((wv_u128)__CPROVER_old((w)[14]) << 88) | \
  ((wv_u128)__CPROVER_old((w)[3]) << 96) | ((wv_u128)__CPROVER_old((w)[7]) << 104) | ((wv_u128)__CPROVER_old((w)[11]) << 112) | ((wv_u128)__CPROVER_old((w)[15]) << 120))

void encryaes__runaes_128bit(encryaes *this, u8_t *w)
__CPROVER_requires(__CPROVER_is_fresh(this, sizeof(*this)) && __CPROVER_is_fresh(w, 16))
__CPROVER_assigns(this->_base.w, __CPROVER_object_upto(w, 16))
__CPROVER_ensures(WV_BLK(w) == WV_AES_ENC_SPEC(&this->_base, WV_BLK_OLD(w)));

void decryaes__runaes_128bit(decryaes *this, u8_t *w)
__CPROVER_requires(__CPROVER_is_fresh(this, sizeof(*this)) && __CPROVER_is_fresh(w, 16))
__CPROVER_assigns(this->_base.w, __CPROVER_object_upto(w, 16))
__CPROVER_ensures(WV_BLK(w) == WV_AES_DEC_SPEC(&this->_base, WV_BLK_OLD(w)));

/* ---- constructors: the key schedule invariant is established from the 16 key bytes */

void aeshandle__keyhandle__genall(aeshandle__keyhandle *this)
__CPROVER_requires(__CPROVER_is_fresh(this, sizeof(*this)))
__CPROVER_assigns(__CPROVER_object_upto(this->key, sizeof(this->key)))
__CPROVER_ensures(WV_KS_OK(this));

void aeshandle__keyhandle__ctor(aeshandle__keyhandle *this, const u8_t *initkey)
__CPROVER_requires(__CPROVER_is_fresh(this, sizeof(*this)) && __CPROVER_is_fresh(initkey, 16))
__CPROVER_assigns(*this)
__CPROVER_ensures(WV_KS_OK(this) && WV_KEY16_EQ(this->init_key, initkey));

void aeshandle__ctor(aeshandle *this, const u8_t *initkey)
__CPROVER_requires(__CPROVER_is_fresh(this, sizeof(*this)) && __CPROVER_is_fresh(initkey, 16))
__CPROVER_assigns(*this)
__CPROVER_ensures(WV_KS_OK(&this->key) && WV_KEY16_EQ(this->key.init_key, initkey));

void encryaes__ctor(encryaes *this, const u8_t *initkey)
__CPROVER_requires(__CPROVER_is_fresh(this, sizeof(*this)) && __CPROVER_is_fresh(initkey, 16))
__CPROVER_assigns(*this)
__CPROVER_ensures(WV_KS_OK(&this->_base.key) && WV_KEY16_EQ(this->_base.key.init_key, initkey) && this->_base._wv_tag == WV_TAG_encryaes);

void decryaes__ctor(decryaes *this, const u8_t *initkey)
__CPROVER_requires(__CPROVER_is_fresh(this, sizeof(*this)) && __CPROVER_is_fresh(initkey, 16))
__CPROVER_assigns(*this)
__CPROVER_ensures(WV_KS_OK(&this->_base.key) && WV_KEY16_EQ(this->_base.key.init_key, initkey) && this->_base._wv_tag == WV_TAG_decryaes);
#endif

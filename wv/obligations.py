"""Obligation table: which CBMC runs decide which property.  One Ob = one function under contract (enforced against its
callees' contracts) or one lemma harness.  `props` lists every property that imports the obligation."""
from pipeline import Ob

AES = dict(contracts=['aes.h'], defines=['WV_USE_SPEC_AES'])


def aes_obligations():
    o = []
    # --- step functions against FIPS-197, complete over all 2^128 states (P-A)
    for f, t in [('addroundkey', 60), ('encryaes_subbytes', 120), ('encryaes_rowshift', 60), ('encryaes_columnmix', 300),
                 ('decryaes_subbytes', 120), ('decryaes_rowshift', 60), ('decryaes_columnmix', 600)]:
        o.append(Ob('aes_' + f, ['C09', 'C02', 'C01'], enforce=f, reveal=['AES_STEPS'], timeout=t, **AES,
                    note='step function == FIPS-197 transformation for every state (tables vs GF(2^8) arithmetic)'))
    # --- rounds: composition of the (opaque) steps in FIPS order
    o.append(Ob('aes_enc_commonround', ['C09', 'C02', 'C01'], enforce='encryaes_commonround', reveal=['AES_ROUNDS'],
                replace=['addroundkey', 'encryaes_subbytes', 'encryaes_rowshift', 'encryaes_columnmix'], **AES))
    o.append(Ob('aes_enc_specround', ['C09', 'C02', 'C01'], enforce='encryaes_specround', reveal=['AES_ROUNDS'],
                replace=['addroundkey', 'encryaes_subbytes', 'encryaes_rowshift'], **AES))
    o.append(Ob('aes_dec_commonround', ['C09', 'C01'], enforce='decryaes_commonround', reveal=['AES_ROUNDS'],
                replace=['addroundkey', 'decryaes_subbytes', 'decryaes_rowshift', 'decryaes_columnmix'], **AES))
    o.append(Ob('aes_dec_specround', ['C09', 'C01'], enforce='decryaes_specround', reveal=['AES_ROUNDS'],
                replace=['addroundkey', 'decryaes_subbytes', 'decryaes_rowshift'], **AES))
    # --- key schedule
    o.append(Ob('aes_genkey', ['C09', 'C02', 'C01'], enforce='aeshandle__keyhandle__genkey', reveal=['AES_STEPS'], timeout=300, **AES,
                note='one key-expansion step == FIPS-197 5.2 for symbolic round 1..10 (RotWord/SubWord/Rcon)'))
    o.append(Ob('aes_genall', ['C09', 'C02', 'C01'], enforce='aeshandle__keyhandle__genall', replace=['aeshandle__keyhandle__genkey'], **AES))
    o.append(Ob('aes_keyhandle_ctor', ['C09', 'C02', 'C01'], enforce='aeshandle__keyhandle__ctor', replace=['aeshandle__keyhandle__genall'], **AES))
    o.append(Ob('aes_aeshandle_ctor', ['C09'], enforce='aeshandle__ctor', replace=['aeshandle__keyhandle__ctor'], **AES))
    o.append(Ob('aes_encryaes_ctor', ['C09', 'C10'], enforce='encryaes__ctor', replace=['aeshandle__ctor'], **AES))
    o.append(Ob('aes_decryaes_ctor', ['C09', 'C10'], enforce='decryaes__ctor', replace=['aeshandle__ctor'], **AES))
    # --- block functions: load, Cipher/InvCipher as composition of (opaque) rounds with key indices 0..10, store
    o.append(Ob('aes_enc_run', ['C09', 'C02', 'C01'], enforce='encryaes__runaes_128bit',
                replace=['encryaes_commonround', 'encryaes_specround'], **AES))
    o.append(Ob('aes_dec_run', ['C09', 'C01'], enforce='decryaes__runaes_128bit',
                replace=['decryaes_commonround', 'decryaes_specround'], **AES))
    # --- lemmas at the specification level (transparent spec): the inverse transformations invert
    o.append(Ob('aes_lemma_sbox_inverse', ['C09', 'C01'], reveal=['AES_STEPS'], timeout=300, **AES, harness='''
void h_aes_lemma_sbox_inverse(void)
{
  unsigned char x;
  __CPROVER_assert(spec_isbox(spec_sbox(x)) == x, "[C09] InvSubBytes o SubBytes = id on every byte");
  __CPROVER_assert(spec_sbox(spec_isbox(x)) == x, "[C09] SubBytes o InvSubBytes = id on every byte");
  __CPROVER_assert(0, "WV_CANARY");
}'''))
    o.append(Ob('aes_lemma_shiftrows_inverse', ['C09', 'C01'], reveal=['AES_STEPS'], timeout=300, **AES, harness='''
void h_aes_lemma_shiftrows_inverse(void)
{
  wv_u128 s;
  __CPROVER_assert(spec_invshiftrows(spec_shiftrows(s)) == s, "[C09] InvShiftRows o ShiftRows = id");
  __CPROVER_assert(0, "WV_CANARY");
}'''))
    # InvMixColumns o MixColumns = id.  As one formula over a 32-bit column this is a parity problem no installed SAT/SMT
    # back end finishes (measured: 900 s time-out), so it is derived from two byte-level facts about GF(2^8) multiplication
    # that CBMC proves completely, with the multiplication opaque in the derivation:
    o.append(Ob('aes_lemma_gmul_linear', ['C09', 'C01'], reveal=['AES_STEPS'], timeout=300, **AES, harness='''
void h_aes_lemma_gmul_linear(void)
{
  unsigned char c, x, y;
  __CPROVER_assert(spec_gmul(c, x ^ y) == (spec_gmul(c, x) ^ spec_gmul(c, y)), "[C09] F1: GF(2^8) multiplication distributes over xor");
  __CPROVER_assert(0, "WV_CANARY");
}'''))
    o.append(Ob('aes_lemma_mixmatrix_product', ['C09', 'C01'], reveal=['AES_STEPS'], timeout=300, **AES, harness='''
static const unsigned char WV_M[4][4] = {{2, 3, 1, 1}, {1, 2, 3, 1}, {1, 1, 2, 3}, {3, 1, 1, 2}};
static const unsigned char WV_MI[4][4] = {{14, 11, 13, 9}, {9, 14, 11, 13}, {13, 9, 14, 11}, {11, 13, 9, 14}};
void h_aes_lemma_mixmatrix_product(void)
{
  unsigned char a;
  for (int i = 0; i < 4; ++i)
    for (int j = 0; j < 4; ++j)
    {
      unsigned char acc = 0;
      for (int k = 0; k < 4; ++k)
        acc ^= spec_gmul(WV_MI[i][k], WV_M[k][j] == 1 ? a : spec_gmul(WV_M[k][j], a));
      __CPROVER_assert(acc == (i == j ? a : 0), "[C09] F2: (InvMix matrix x Mix matrix)[i][j] applied to any byte is delta_ij");
    }
  __CPROVER_assert(0, "WV_CANARY");
}'''))
    o.append(Ob('aes_lemma_mixcolumns_inverse', ['C09', 'C01'], reveal=['AES_STEPS'], defines=['WV_USE_SPEC_AES', 'WV_OPAQUE_GMUL'],
                contracts=['aes.h'], timeout=600, harness='''
static const unsigned char WV_M[4][4] = {{2, 3, 1, 1}, {1, 2, 3, 1}, {1, 1, 2, 3}, {3, 1, 1, 2}};
static const unsigned char WV_MI[4][4] = {{14, 11, 13, 9}, {9, 14, 11, 13}, {13, 9, 14, 11}, {11, 13, 9, 14}};
void h_aes_lemma_mixcolumns_inverse(void)
{
  wv_u128 s;
  spec_st a = spec_unpack(s);
  for (int c = 0; c < 4; ++c)
  {
    unsigned char t[4][4];   /* t[k][j] = M[k][j] . a[j][c] */
    for (int k = 0; k < 4; ++k)
      for (int j = 0; j < 4; ++j)
        t[k][j] = WV_M[k][j] == 1 ? a.b[j][c] : spec_gmul(WV_M[k][j], a.b[j][c]);
    for (int i = 0; i < 4; ++i)
    {
      for (int k = 0; k < 4; ++k)
      {
        /* instances of F1 (aes_lemma_gmul_linear) */
        unsigned char m = WV_MI[i][k];
        __CPROVER_assume(spec_gmul(m, t[k][0] ^ t[k][1] ^ t[k][2] ^ t[k][3]) == (spec_gmul(m, t[k][0]) ^ spec_gmul(m, t[k][1] ^ t[k][2] ^ t[k][3])));
        __CPROVER_assume(spec_gmul(m, t[k][1] ^ t[k][2] ^ t[k][3]) == (spec_gmul(m, t[k][1]) ^ spec_gmul(m, t[k][2] ^ t[k][3])));
        __CPROVER_assume(spec_gmul(m, t[k][2] ^ t[k][3]) == (spec_gmul(m, t[k][2]) ^ spec_gmul(m, t[k][3])));
      }
      for (int j = 0; j < 4; ++j)
      {
        /* instance of F2 (aes_lemma_mixmatrix_product) for byte a[j][c] */
        unsigned char acc = 0;
        for (int k = 0; k < 4; ++k)
          acc ^= spec_gmul(WV_MI[i][k], t[k][j]);
        __CPROVER_assume(acc == (i == j ? a.b[j][c] : 0));
      }
    }
  }
  __CPROVER_assert(spec_invmixcolumns(spec_mixcolumns(s)) == s, "[C09] InvMixColumns o MixColumns = id on every state");
  __CPROVER_assert(0, "WV_CANARY");
}''', note='GF(2^8) multiplication is opaque here; assumed instances of the proved lemmas F1 (distributivity) and F2 (matrix product)'))
    # subbytes on states is byte-wise sbox: the state-level inverse follows from the byte lemma
    o.append(Ob('aes_lemma_subbytes_bytewise', ['C09', 'C01'], reveal=['AES_STEPS'], timeout=300, **AES, harness='''
void h_aes_lemma_subbytes_bytewise(void)
{
  wv_u128 s;
  unsigned i;
  __CPROVER_assume(i < 16);
  wv_u128 t = spec_subbytes(s), u = spec_invsubbytes(s);
  __CPROVER_assert((unsigned char)(t >> (8 * i)) == spec_sbox((unsigned char)(s >> (8 * i))), "[C09] SubBytes applies the S-box to every byte");
  __CPROVER_assert((unsigned char)(u >> (8 * i)) == spec_isbox((unsigned char)(s >> (8 * i))), "[C09] InvSubBytes applies the inverse S-box to every byte");
  __CPROVER_assert(0, "WV_CANARY");
}'''))
    # round-level inverse from the step lemmas (instantiated as assumptions; each instance is an instance of a proved lemma)
    o.append(Ob('aes_lemma_round_inverse', ['C09', 'C01'], reveal=['AES_ROUNDS'], **AES, harness='''
void h_aes_lemma_round_inverse(void)
{
  wv_u128 s, k, k9, k10;
  /* instances of aes_lemma_step_inverse / aes_lemma_sbox_inverse + aes_lemma_subbytes_bytewise */
  wv_u128 a = spec_subbytes(s ^ k);
  wv_u128 b = spec_shiftrows(a);
  __CPROVER_assume(spec_invmixcolumns(spec_mixcolumns(b)) == b);
  __CPROVER_assume(spec_invshiftrows(b) == a);
  __CPROVER_assume(spec_invsubbytes(a) == (s ^ k));
  __CPROVER_assert(spec_decround(spec_encround(s, k), k) == s, "[C09] the decryption round inverts the encryption round");
  wv_u128 c = spec_subbytes(s ^ k9);
  __CPROVER_assume(spec_invshiftrows(spec_shiftrows(c)) == c);
  __CPROVER_assume(spec_invsubbytes(c) == (s ^ k9));
  __CPROVER_assert(spec_decfirst(spec_enclast(s, k9, k10), k9, k10) == s, "[C09] the first decryption round inverts the last encryption round");
  __CPROVER_assert(0, "WV_CANARY");
}''', note='assumed instances of proved lemmas: InvMixColumns(MixColumns(b))=b, InvShiftRows(ShiftRows(a))=a, InvSubBytes(SubBytes(x))=x'))
    o.append(Ob('aes_lemma_cipher_inverse', ['C09', 'C01'], **AES, harness='''
void h_aes_lemma_cipher_inverse(void)
{
  wv_u128 s, k[11];
  /* instances of aes_lemma_round_inverse along the computation */
  wv_u128 x[10];
  x[0] = s;
  for (int r = 0; r < 9; ++r)
  {
    x[r + 1] = spec_encround(x[r], k[r]);
    __CPROVER_assume(spec_decround(x[r + 1], k[r]) == x[r]);
  }
  wv_u128 c = spec_enclast(x[9], k[9], k[10]);
  __CPROVER_assume(spec_decfirst(c, k[9], k[10]) == x[9]);
  __CPROVER_assert(c == SPEC_CIPHER11(s, k[0], k[1], k[2], k[3], k[4], k[5], k[6], k[7], k[8], k[9], k[10]), "[C09] x is the computation of Cipher");
  __CPROVER_assert(SPEC_INVCIPHER11(c, k[0], k[1], k[2], k[3], k[4], k[5], k[6], k[7], k[8], k[9], k[10]) == s,
                   "[C09] InvCipher(Cipher(s, K), K) == s for every state and key schedule");
  __CPROVER_assert(0, "WV_CANARY");
}''', note='assumed instances of the proved round-inverse lemma at the ten intermediate states'))
    # the property statement itself, over the contracts: encrypt == FIPS cipher with FIPS key expansion; decrypt inverts
    o.append(Ob('aes_C09_statement', ['C09'], replace=['encryaes__ctor', 'decryaes__ctor', 'encryaes__runaes_128bit', 'decryaes__runaes_128bit'],
                **AES, harness='''
void h_aes_C09_statement(void)
{
  u8_t *key = malloc(16), *blk = malloc(16);
  encryaes *e = malloc(sizeof(encryaes));
  decryaes *d = malloc(sizeof(decryaes));
  __CPROVER_assume(key && blk && e && d);
  wv_u128 in = WV_BLK(blk);
  encryaes__ctor(e, key);
  decryaes__ctor(d, key);
  /* FIPS-197 key expansion from the 16 key bytes */
  wv_u128 K[11];
  K[0] = spec_load(key);
  for (int r = 1; r < 11; ++r)
    K[r] = spec_nextkey(K[r - 1], r);
  encryaes__runaes_128bit(e, blk);
  wv_u128 ct = WV_BLK(blk);
  __CPROVER_assert(ct == SPEC_CIPHER11(in, K[0], K[1], K[2], K[3], K[4], K[5], K[6], K[7], K[8], K[9], K[10]),
                   "[C09] single-block encryption == FIPS-197 Cipher(in, KeyExpansion(key)) for every key and block");
  /* instance of aes_lemma_cipher_inverse */
  __CPROVER_assume(SPEC_INVCIPHER11(ct, K[0], K[1], K[2], K[3], K[4], K[5], K[6], K[7], K[8], K[9], K[10]) == in);
  decryaes__runaes_128bit(d, blk);
  __CPROVER_assert(WV_BLK(blk) == in, "[C09] single-block decryption is the exact inverse of encryption for every key and block");
  __CPROVER_assert(0, "WV_CANARY");
}''', note='composition of the contracts; assumed instance of the proved lemma InvCipher(Cipher(s,K),K)=s'))
    return o


MODE = dict(contracts=['aesmode.h'], defines=['WV_USE_SPEC_AES'])
MODE_CLASSES = [('AesECB_Enc', 'encryaes', 'AesEncrypt'), ('AesECB_Dec', 'decryaes', 'AesDecrypt'), ('AesCBC_Enc', 'encryaes', 'AesEncrypt'),
                ('AesCBC_Dec', 'decryaes', 'AesDecrypt'), ('AesCTR', 'encryaes', 'AesEncrypt'), ('AesCFB_Enc', 'encryaes', 'AesEncrypt'),
                ('AesCFB_Dec', 'encryaes', 'AesEncrypt'), ('AesOFB', 'encryaes', 'AesEncrypt')]


def mode_obligations():
    o = []
    o.append(Ob('mode_getXor', ['C10', 'C02', 'C01'], enforce='Aesmode__getXor', **MODE))
    o.append(Ob('mode_Aesmode_ctor', ['C10', 'C18', 'C02'], enforce='Aesmode__ctor', **MODE))
    o.append(Ob('mode_ctrInc', ['C10', 'C02', 'C01'], enforce='AesCTR__ctrInc', **MODE,
                note='128-bit big-endian increment with carries, complete over all 2^128 counter values (16-iteration loop unwound)'))
    for cls, ciph, mid in MODE_CLASSES:
        rep = [ciph + '__runaes_128bit', 'Aesmode__getXor'] + (['AesCTR__ctrInc'] if cls == 'AesCTR' else [])
        if cls.startswith('AesECB'):
            rep = [ciph + '__runaes_128bit']
        o.append(Ob('mode_%s_runcry' % cls, ['C10', 'C02', 'C01'], enforce=cls + '__runcry', replace=rep, **MODE,
                    note='one stream step == SP 800-38A recurrence; exactly the block, the feedback register and the cipher scratch state are assigned'))
        o.append(Ob('mode_%s_ctor' % cls, ['C10', 'C18', 'C02'], enforce=cls + '__ctor', replace=[mid + '__ctor'], **MODE))
    o.append(Ob('mode_AesEncrypt_ctor', ['C10', 'C18', 'C02'], enforce='AesEncrypt__ctor', replace=['Aesmode__ctor', 'encryaes__ctor'], **MODE))
    o.append(Ob('mode_AesDecrypt_ctor', ['C10', 'C18', 'C02'], enforce='AesDecrypt__ctor', replace=['Aesmode__ctor', 'decryaes__ctor'], **MODE))
    o.append(Ob('mode_factory', ['C10', 'C18', 'C02', 'C11'], enforce='AesFactory__createCryMaster',
                replace=[c + '__ctor' for c, _, _ in MODE_CLASSES], solver='minisat', timeout=600, **MODE,
                note='factory maps (direction, mode number 0..4) to the stream class; NULL for other numbers'))
    # decryptor inverts encryptor: one step of each pair over the contracts (the induction step for streams of any length)
    pairs = [('AesECB_Enc', 'AesECB_Dec'), ('AesCBC_Enc', 'AesCBC_Dec'), ('AesCTR', 'AesCTR'), ('AesCFB_Enc', 'AesCFB_Dec'), ('AesOFB', 'AesOFB')]
    for e, d in pairs:
        o.append(Ob('mode_inverse_%s' % e, ['C10', 'C01'], replace=[e + '__runcry'] + ([d + '__runcry'] if d != e else []), **MODE, harness='''
#define KS(a, r) WV_ST(&(a)->_base.crypt._base.key.key[r])
void h_mode_inverse_%(e)s(void)
{
  %(e)s *enc = malloc(sizeof(%(e)s));
  %(d)s *dec = malloc(sizeof(%(d)s));
  u8_t *blk = malloc(16);
  __CPROVER_assume(enc && dec && blk);
  /* same key schedule, same feedback register */
  for (int r = 0; r < 11; ++r)
    __CPROVER_assume(KS(enc, r) == KS(dec, r));
  __CPROVER_assume(WV_BLK(enc->_base._base.iv) == WV_BLK(dec->_base._base.iv));
  wv_u128 p = WV_BLK(blk), iv = WV_BLK(enc->_base._base.iv);
  /* instance of the proved lemma InvCipher(Cipher(x, K), K) == x (aes_lemma_cipher_inverse) at x = p ^ iv and x = p */
#define CI(x) __CPROVER_assume(SPEC_INVCIPHER11(SPEC_CIPHER11(x, KS(enc, 0), KS(enc, 1), KS(enc, 2), KS(enc, 3), KS(enc, 4), KS(enc, 5), KS(enc, 6), KS(enc, 7), KS(enc, 8), KS(enc, 9), KS(enc, 10)), \
    KS(enc, 0), KS(enc, 1), KS(enc, 2), KS(enc, 3), KS(enc, 4), KS(enc, 5), KS(enc, 6), KS(enc, 7), KS(enc, 8), KS(enc, 9), KS(enc, 10)) == (x))
  CI(p ^ iv);
  CI(p);
  %(e)s__runcry(enc, blk);
  %(d)s__runcry(dec, blk);
  __CPROVER_assert(WV_BLK(blk) == p, "[C10] the decryptor step restores the block the encryptor step consumed");
  __CPROVER_assert(WV_BLK(enc->_base._base.iv) == WV_BLK(dec->_base._base.iv), "[C10] both streams are in the same state afterwards (induction step)");
  __CPROVER_assert(0, "WV_CANARY");
}''' % {'e': e, 'd': d}, note='assumed instance of the proved lemma InvCipher(Cipher(x,K),K)=x'))
    return o


HASH = dict(contracts=['hash.h'])


def hash_obligations():
    o = []
    P = ['C07', 'C08', 'C02', 'C05', 'C06']
    pb = 'P-B: every round/step is checked against the standard\'s round function for an arbitrary pre-state (loop contract / cut points); the round count and the feed-forward are postconditions'
    o.append(Ob('sha256_compress', P, enforce='sha256hash__getHash_1', unwind=66, timeout=900, note=pb, **HASH))
    o.append(Ob('sha1_compress', P, enforce='sha1hash__getHash_1', unwind=82, timeout=900, note=pb, **HASH))
    o.append(Ob('md5_compress', P, enforce='md5hash__getHash_1', unwind=66, timeout=900, note=pb, solver='minisat', **HASH))
    al = dict(contracts=['hash.h'], defines=['WV_ALIAS_COMPRESS'])
    al2 = dict(contracts=['hash.h'], defines=['WV_ALIAS_FINAL'])
    an = ' (variant: the block pointer is the hasher\'s own hashblock member, as passed by getFileHash)'
    o.append(Ob('sha256_compress_alias', P, enforce='sha256hash__getHash_1', unwind=66, timeout=900, note=pb + an, **al))
    o.append(Ob('sha1_compress_alias', P, enforce='sha1hash__getHash_1', unwind=82, timeout=900, note=pb + an, **al))
    o.append(Ob('md5_compress_alias', P, enforce='md5hash__getHash_1', unwind=66, timeout=900, note=pb + an, solver='minisat', **al))
    for c in ('sha256hash', 'sha1hash', 'md5hash'):
        o.append(Ob(c + '_final_alias', P, enforce=c + '__getHash_2', replace=[c + '__getHash_1'], unwind=66, timeout=600, note='final-block routine' + an, **al2))
    for m, dd in (('getHash_1', 'WV_ALIAS_COMPRESS'), ('getHash_2', 'WV_ALIAS_FINAL')):
        o.append(Ob('hashmaster_dispatch_%s_alias' % m, P, enforce='Hashmaster__' + m, contracts=['hash.h'], defines=[dd, 'WV_HM_BIG'],
                    replace=['%s__%s' % (c, m) for c in ('sha256hash', 'sha1hash', 'md5hash')], note='R5 dispatcher' + an))
    for c in ('sha256hash', 'sha1hash', 'md5hash'):
        o.append(Ob(c + '_final', P, enforce=c + '__getHash_2', replace=[c + '__getHash_1'], unwind=66, timeout=600, **HASH,
                    note='padding rule for every residue r < 64 and the 64-bit length field, observed at an arbitrary byte of either final block'))
        o.append(Ob(c + '_reset', P, enforce=c + '__reset', **HASH))
        o.append(Ob(c + '_getres', P, enforce=c + '__getres', unwind=34, **HASH))
    # behavioural subtyping: each dispatcher's abstract contract holds for every subclass (overriders replaced by their contracts)
    for m, suffix in (('reset', ''), ('getHash_1', ''), ('getHash_2', ''), ('getres', '')):
        o.append(Ob('hashmaster_dispatch_' + m, P, enforce='Hashmaster__' + m, defines=['WV_HM_BIG'],
                    replace=['%s__%s' % (c, m) for c in ('sha256hash', 'sha1hash', 'md5hash')], **HASH,
                    note='R5 dispatcher: the abstract contract used by the drivers is satisfied by all three subclasses'))
    o.append(Ob('hashmaster_getStringHash', P + ['C18'], enforce='Hashmaster__getStringHash', timeout=600, defines=['WV_HM_BIG'],
                replace=['Hashmaster__reset', 'Hashmaster__getHash_1', 'Hashmaster__getHash_2', 'Hashmaster__getres'], **HASH,
                note='unbounded in the message length (symbolic 32-bit length, loop contract); call log: block j is string[64j..64j+64), then the final routine with the tail and the 64-bit bit count'))
    # hashing buffer; the refill size constant is overridden by small values (DESIGN.md 2.4)
    for hb in (1, 2, 3):
        d = ['filebuffer64__HBUF_SZ=%d' % hb]
        o.append(Ob('filebuffer64_ctor_hb%d' % hb, P, enforce='filebuffer64__ctor', replace=['wv_fread'], defines=d, **HASH,
                    note='proof-build refill size HBUF_SZ=%d units' % hb))
        o.append(Ob('filebuffer64_read_hb%d' % hb, P, enforce='filebuffer64__read_buffer64', replace=['wv_fread'], defines=d, **HASH,
                    note='unit sequence 64,...,64,short across refills; proof-build refill size HBUF_SZ=%d units' % hb))
    o.append(Ob('buffer64_dispatch_read', P, enforce='buffer64__read_buffer64', replace=['filebuffer64__read_buffer64'], defines=['filebuffer64__HBUF_SZ=2'], **HASH))
    o.append(Ob('hashmaster_getFileHash', P, enforce='Hashmaster__getFileHash', timeout=600, defines=['filebuffer64__HBUF_SZ=2', 'WV_ALIAS_COMPRESS', 'WV_ALIAS_FINAL', 'WV_HM_BIG'], split=12,
                replace=['Hashmaster__reset', 'Hashmaster__getHash_1', 'Hashmaster__getHash_2', 'Hashmaster__getres', 'buffer64__read_buffer64'], **HASH,
                note='unbounded in the stream length (symbolic 64-bit file length, loop contract with a decreasing variant)'))
    return o


FH = dict(contracts=['fheader.h'])


def fheader_obligations():
    o = []
    P = ['C08', 'C05', 'C06', 'C02', 'C11']
    hb = ['filebuffer64__HBUF_SZ=2']
    o.append(Ob('hashfactory_getType', P, enforce='HashFactory__getType', **FH))
    o.append(Ob('hashfactory_getHasher', P, enforce='HashFactory__getHasher', **FH))
    for ht in (0, 1, 2):
        dh = ['WV_HTYPE_FIX=%d' % ht]
        tn = ' (hash type %d)' % ht
        # the hash type is a constant of the harness, and the factory / length getters are the real code (not their contracts), so that
        # the block and digest lengths are constants for CBMC (measured: with symbolic buffer sizes symex alone takes 216 s and the
        # propositional reduction runs out of 12 GB)
        o.append(Ob('hmac_getres_h%d' % ht, P, enforce='hmac__getres', timeout=900, unwind=66, defines=hb + dh, **FH,
                    args='  hmac__getres(wv_a0, %d, wv_a2, wv_a3, wv_a4);' % ht,
                    replace=['filebuffer64__ctor', 'Hashmaster__getFileHash', 'Hashmaster__getStringHash'],
                    note='RFC 2104 structure: pad blocks from all 16 key bytes, inner hash over pad block + file[pos, EOF), outer hash over pad block + inner digest' + tn))
        o.append(Ob('hmac_cmphmac_h%d' % ht, P, enforce='hmac__cmphmac', replace=['hmac__getres'], unwind=34, defines=dh, timeout=900, **FH,
                    note='accepts iff every one of the hlen tag bytes matches (32-fold expanded equality, no ghost index needed)' + tn))
        o.append(Ob('hmac_gethmac_h%d' % ht, P, enforce='hmac__gethmac', replace=['hmac__getres'], unwind=34, defines=dh, **FH))
        o.append(Ob('hmac_writeFileHmac_h%d' % ht, P + ['C13'], enforce='hmac__writeFileHmac', replace=['hmac__getres', 'wv_fseek', 'wv_fwrite'], unwind=34, defines=dh, **FH,
                    note='one fwrite of exactly hlen bytes at writeMark, after hashing [hashMark, EOF)' + tn))
    PR = ['C05', 'C06', 'C11', 'C12']
    fr = ['wv_fseek', 'wv_fread']
    o.append(Ob('fheader_checkMn', PR, enforce='FileHeader__checkMn', replace=fr, **FH))
    o.append(Ob('fheader_checkType', PR, enforce='FileHeader__checkType', replace=fr, **FH))
    o.append(Ob('fheader_getHmac', PR, enforce='FileHeader__getHmac', replace=fr, **FH))
    o.append(Ob('fheader_getIV_file', PR + ['C01'], enforce='FileHeader__getIV_2', replace=fr, **FH))
    o.append(Ob('fheader_getIV_seed', ['C02', 'C18'], enforce='FileHeader__getIV_1', unwind=18, timeout=600, defines=['WV_HM_BIG'], **FH,
                args='  FileHeader__getIV_1(wv_a0, wv_a1, wv_a2);',
                replace=['Hashmaster__getStringHash', 'wv_strlen'], note='IV 0 = SHA-1(seed), IV i = SHA-1(IV i-1): asserted through the hash call log for T <= 16'))
    o.append(Ob('fheader_getFileHeader', ['C02', 'C13', 'C08'], enforce='FileHeader__getFileHeader', replace=['wv_fwrite'], unwind=18, timeout=600, **FH,
                note='every header byte written exactly once with the documented value (observed at an arbitrary output offset)'))
    return o


CRY = dict(contracts=['cry.h'], defines=['WV_USE_SPEC_AES'])
# proof-build chunk size (DESIGN.md 2.4): 2 blocks = 32 bytes per buffer instead of 16 MiB
BUFSZ = ['iobuffer__BUF_SZ=2u', 'iobuffer__sum=32u']
# T sizes heap arrays, so these obligations are run per value of T.  Quick: 1 and 2.  Thorough: the values below - measured to finish
# within the memory / time limits (execute_* and run_buffer with T = 16 run out of memory / time; run_multicry and the instance
# set-up are cheap enough for T = 16).
T_VALUES = [1, 2, 3, 4]
T_LIGHT = [1, 2, 3, 4, 16]
T_QUICK = (1, 2)


def cry_obligations():
    o = []
    PV = ['C05', 'C06', 'C11', 'C12']
    o.append(Ob('cry_verify', PV, enforce='runcrypt__verify', timeout=900, **CRY,
                replace=['FileHeader__checkMn', 'FileHeader__checkType', 'wv_fseek', 'wv_fread', 'hmac__cmphmac'],
                note='verdict 0 iff magic, known mode numbers, 74 bytes, and all tag bytes equal the HMAC of [48, EOF) under the file\'s hash mode'))
    for nm, dd in (('', []), ('_noout', ['WV_OUT_NULL'])):
        o.append(Ob('cry_over' + nm, PV + ['C15'], enforce='runcrypt__over', replace=['wv_fclose'], contracts=['cry.h'], defines=['WV_USE_SPEC_AES'] + dd))
        o.append(Ob('cry_execute_verify' + nm, PV + ['C15'], enforce='runcrypt__execute_verify', replace=['runcrypt__verify', 'runcrypt__over'], timeout=600,
                    contracts=['cry.h'], defines=['WV_USE_SPEC_AES'] + dd,
                    note='returns verify() == 0; no file is written (frame); process-global state untouched' + (' (no output file given)' if dd else '')))
    # C05 as a lemma over the contract of verify(): two files that differ in exactly one header byte (offset d < 48) are presented
    # under the same key.  verify() is represented by its contract (proved by cry_verify) in both calls.
    o.append(Ob('cry_c05_header_bytes', ['C05'], replace=['runcrypt__verify'], timeout=600, **CRY, harness='''
#define WV_PAIR_SETUP(r, f) { r->fin = f; r->key = key; r->header.fp = f; r->header.out = r->out; r->header.key = key; r->header.num = r->threads_num; \\
  r->aesfactory.key = key; r->crym.THREADS_NUM = r->threads_num; __CPROVER_assume(r->threads_num >= 1 && r->threads_num <= 16 && WV_T_IS(r->threads_num) && WV_FILE_OPEN(f)); }
#define WV_AGREE(o) ((o) == d || wv_filebyte(fa->id, (o)) == wv_filebyte(fb->id, (o)))
void h_cry_c05_header_bytes(void)
{
  runcrypt *a = malloc(sizeof(runcrypt)), *b = malloc(sizeof(runcrypt));
  wv_FILE *fa = malloc(sizeof(wv_FILE)), *fb = malloc(sizeof(wv_FILE));
  u8_t *key = malloc(16);
  __CPROVER_assume(a && b && fa && fb && key);
  WV_PAIR_SETUP(a, fa);
  WV_PAIR_SETUP(b, fb);
  __CPROVER_assume(WV_GHOST_IN);
  /* B is A with the byte at offset d < 48 changed and nothing else (stated for every offset the contract of verify speaks about;
     wv_gr is the harness-chosen index of a tag byte) */
  unsigned long long d;
  __CPROVER_assume(d < 48 && fa->id != fb->id && fa->len == fb->len && a->threads_num == b->threads_num);
  __CPROVER_assume(WV_AGREE(0) && WV_AGREE(1) && WV_AGREE(2) && WV_AGREE(3) && WV_AGREE(4) && WV_AGREE(5) && WV_AGREE(6) && WV_AGREE(7) && WV_AGREE(8) && WV_AGREE(9));
  __CPROVER_assume(WV_AGREE(10 + (unsigned long long)wv_gr));
  __CPROVER_assume((d >= 10 && d < 26) ==> wv_gr == d - 10);   /* the observed tag byte is the changed one when a tag byte (index < 16) is changed */
  __CPROVER_assume(wv_filebyte(fa->id, d) != wv_filebyte(fb->id, d));
  size_t fsize;
  u8_t ra = runcrypt__verify(a, fsize);
  struct wv_tag_t tag_a = wv_tagv;
  __CPROVER_assume(WV_GHOST_IN);   /* the ghost call log is an observer: it is set up again for the second run */
  u8_t rb = runcrypt__verify(b, fsize);
  /* C08: the tag is a function of (key, hash mode, bytes [48, EOF)); both runs have the same key and the same bytes from 48 on */
  __CPROVER_assume(a->header.htype == b->header.htype ==> tag_a.b[wv_gr] == wv_tagv.b[wv_gr]);
  unsigned hlen = WV_HLEN_OF_TYPE(a->header.htype);
  if (ra == 0 && rb == 0)
  {
    __CPROVER_assert(d >= 8, "[C05] the eight magic bytes are fixed by an accepting verdict");
    __CPROVER_assert(!(d >= 10 && d < 26 && d < 10 + hlen), "[C05] every tag byte (index < 16) is fixed by an accepting verdict");
    __CPROVER_assert(d != 8, "[C05] the cipher-mode byte (offset 8) is bound by an accepting verdict");
    __CPROVER_assert(d == 8 || d == 9 || d >= 10 + hlen || d >= 26,
                     "[C05-envelope] two accepted files that differ in one header byte differ in the cipher-mode byte, the hash-mode byte (left to the cryptographic assumption), a tag byte of index >= 16 (not observed by this lemma) or the unused zero fill");
  }
  __CPROVER_assert(0, "WV_CANARY");
}''', note='lemma over the contract of verify(): which single header bytes can differ between two accepted files'))
    o.append(Ob('cry_prepare_IV_file', PV + ['C01'], enforce='runcrypt__prepare_IV_2', replace=['FileHeader__getIV_2'], **CRY))
    o.append(Ob('cry_prepare_IV_seed', ['C02', 'C18', 'C13'], enforce='runcrypt__prepare_IV_1', replace=['FileHeader__getIV_1', 'FileHeader__getFileHeader'], **CRY))
    o.append(Ob('bg_get_instance', ['C15', 'C01'], enforce='buffergroup__get_instance', **CRY, note='double-checked singleton creation; a fresh instance starts at turn 0, not over'))
    o.append(Ob('bg_del_instance_null', ['C15'], **CRY, note='del_instance without an instance does nothing', harness='''
void h_bg_del_instance_null(void)
{
  buffergroup__instance = NULL;
  buffergroup__mtx.held = 0;
  unsigned live = bufferctrl__live_num;
  buffergroup__del_instance();
  __CPROVER_assert(buffergroup__instance == NULL && !buffergroup__mtx.held && bufferctrl__live_num == live, "[C15] del_instance without an instance changes nothing");
  __CPROVER_assert(0, "WV_CANARY");
}'''))
    for T in T_VALUES:
        dT = ['WV_USE_SPEC_AES', 'WV_T_FIX=%d' % T] + BUFSZ
        tn = ' (T = %d worker threads)' % T
        tier = 'quick' if T in T_QUICK else 'thorough'
        # prepare_AES: enforcing a contract on it, or harnessing it alone, timed out in every formulation tried (> 600 s even for
        # T = 1) while its real code inlined in its two callers' proofs below takes ~2 minutes.  Its facts (stream class, user key,
        # stream IVs -- C18 and the envelope of the recorded C18 finding) are therefore in-place assertions in prepare_AES,
        # discharged inside cry_execute_encrypt_T* / cry_execute_decrypt_T*.
        o.append(Ob('bg_set_buffergroup_T%d' % T, ['C15', 'C01', 'C14'], enforce='buffergroup__set_buffergroup', contracts=['cry.h'], defines=dT, tier=tier, unwind=T + 2,
                    note='T buffers, all EMPTY (owned by the I/O thread), nothing loaded; live_num == T' + tn))
        o.append(Ob('bg_del_instance_T%d' % T, ['C15'], enforce='buffergroup__del_instance', contracts=['cry.h'], defines=dT, tier=tier,
                    note='the singleton and its arrays are released and the pointer is cleared' + tn))
        enc = dict(enforce='runcrypt__execute_encrypt', contracts=['cry.h'], defines=dT + ['WV_FACTORY_LIGHT'], unwind=T + 2,
                   replace=['runcrypt__prepare_IV_1', 'AesFactory__createCryMaster', 'multicry_master__run_multicry', 'hmac__writeFileHmac',
                            'runcrypt__release', 'runcrypt__over'])
        # prepare_AES and the instance set-up are the real code in both: a pointer that is only *assumed* equal (by a replaced
        # contract) cannot be dereferenced efficiently by CBMC, and the pipeline summary reaches the files through the instance
        dec = dict(enforce='runcrypt__execute_decrypt', contracts=['cry.h'], defines=dT + ['WV_FACTORY_LIGHT'], unwind=T + 2,
                   replace=['runcrypt__verify', 'runcrypt__prepare_IV_2', 'wv_fseek', 'AesFactory__createCryMaster', 'multicry_master__run_multicry',
                            'runcrypt__release', 'runcrypt__over'])
        o.append(Ob('cry_execute_encrypt_T%d' % T, ['C02', 'C08', 'C12', 'C13', 'C15'], timeout=900, tier=tier, skip_desc=r'^\[(C18|C02,C01)', **enc,
                    note='write order header -> body -> tag (last write); output length; tag area written zero then once; input only read; global state fresh again' + tn))
        o.append(Ob('cry_execute_decrypt_T%d' % T, PV + ['C15', 'C01'], timeout=900, tier=tier, skip_desc=r'^\[(C18|C02,C01)', **dec,
                    note='same verdict as verify; output written only after a 0 verdict and bounded by the body length; global state fresh again' + tn))
        # C18: the stream-IV assertions written in prepare_AES, discharged in the context of its two callers (same groups as above,
        # only these assertions selected).  The built-in SAT solver is used: the external one runs out of memory on the satisfiable
        # instance of the recorded finding (measured).
        t18 = 'quick'
        if T > 2:
            continue   # measured: the T = 3, 4 instances of these groups (MiniSat, ~10 GB each) do not finish within 40 minutes when run side by side
        o.append(Ob('cry_stream_ivs_encrypt_T%d' % T, ['C18', 'C02', 'C01'], timeout=2400, tier=t18, only_desc=r'^\[(C18|C02,C01)', solver='minisat', split=3, **enc,
                    note='in-place assertions of prepare_AES reached from execute_encrypt: stream object of the class for (direction, mode) with the user key [C02]; stream i starts from IV i (C18 property); from IV i or IV 0 (envelope of the recorded finding)' + tn))
        o.append(Ob('cry_stream_ivs_decrypt_T%d' % T, ['C18', 'C01'], timeout=2400, tier=t18, only_desc=r'^\[(C18|C02,C01)', solver='minisat', split=3, **dec,
                    note='the same assertions reached from execute_decrypt' + tn))
    return o


PIPE = dict(contracts=['pipeline.h'], defines=['WV_USE_SPEC_AES', 'WV_FACTORY_LIGHT'] + BUFSZ)


def pair_harness(name, call, group=False, extra=''):
    """harness of the thread-modular obligations: concrete objects, ghosts wv_c / wv_b pointed at them"""
    if group:
        setup = """  buffergroup *g = malloc(sizeof(buffergroup));
  __CPROVER_assume(g != NULL);
  g->ctrl = malloc(sizeof(bufferctrl) * 16);
  g->buflst = malloc(sizeof(iobuffer) * 16);
  __CPROVER_assume(g->ctrl != NULL && g->buflst != NULL);
  u8_t id;
#ifdef WV_ID_FIX
  id = WV_ID_FIX;
#else
  __CPROVER_assume(id < 16);
#endif
  wv_c = &g->ctrl[id];
  wv_b = &g->buflst[id];
"""
    else:
        setup = """  bufferctrl *c = malloc(sizeof(bufferctrl));
  iobuffer *b = malloc(sizeof(iobuffer));
  __CPROVER_assume(c != NULL && b != NULL);
  wv_c = c;
  wv_b = b;
"""
    return 'void h_%s(void)\n{\n%s%s  %s\n  __CPROVER_assert(0, "WV_CANARY");\n}\n' % (name, setup, extra, call)


def pipeline_obligations():
    o = []
    W = ['C03', 'C14', 'C04', 'C01']
    prim = ['wv_cv_wait', 'wv_cv_notify_all']

    def ob(name, fn, call, replace=(), group=False, extra='', defines_extra=(), **kw):
        o.append(Ob(name, W, enforce=fn, replace=list(replace), harness=pair_harness(name, call, group, extra), contracts=PIPE['contracts'],
                    defines=PIPE['defines'] + list(defines_extra), **kw))
    ob('pipe_cmpstate', 'bufferctrl__cmpstate', 'enum bufstate_t s; bufferctrl__cmpstate(c, s);')
    ob('pipe_wait_ready', 'bufferctrl__wait_ready', 'bufferctrl__wait_ready(c);', prim,
       note='[C04 lemma 1] leaves only with READY/INV, re-tested under the lock after every wake-up; proved against the rely of cv.wait')
    ob('pipe_wait_update', 'bufferctrl__wait_update', 'bufferctrl__wait_update(c);', prim)
    ob('pipe_set_ready', 'bufferctrl__set_ready', 'bool load; bufferctrl__set_ready(c, load);', prim,
       note='[C14] I/O-side transition EMPTY|UPDATING -> READY|INV only; [C04 lemmas 2, 4] notify under the lock, READY implies a non-empty buffer')
    ob('pipe_set_update', 'bufferctrl__set_update', 'bufferctrl__set_update(c);', prim,
       note='[C14] worker-side transition READY -> UPDATING only by the owner; [C03] only when fully consumed')
    ob('pipe_get_entry', 'iobuffer__get_entry', 'iobuffer__get_entry(b);')
    ob('pipe_require_buffer_entry', 'buffergroup__require_buffer_entry', 'buffergroup__require_buffer_entry(g, id);',
       ['iobuffer__get_entry', 'bufferctrl__set_update', 'bufferctrl__wait_ready', 'bufferctrl__cmpstate'], group=True, timeout=600,
       note='[C14] every look into the buffer happens in READY/INV; [C03] next block in order; [C04 lemma 3] NULL only when INV')
    ob('pipe_wait_buffer', 'buffergroup__wait_buffer', 'buffergroup__wait_buffer(g, id);', ['bufferctrl__wait_ready'], group=True)
    ob('pipe_worker', 'multiruncrypt_file', 'multiruncrypt_file(id, (Aesmode *)m);', ['buffergroup__wait_buffer', 'buffergroup__require_buffer_entry', 'Aesmode__runcry'],
       group=True, timeout=600, extra='  AesEncrypt *m = malloc(sizeof(AesEncrypt));\n  __CPROVER_assume(m != NULL);\n  buffergroup__instance = g;\n', defines_extra=['WV_RUNCRY_LIGHT'],
       note='[C03] every block handed out is transformed exactly once, immediately, by the stream the thread was started with; exit only on INV')
    IO = ['C01', 'C02', 'C03', 'C11', 'C13', 'C14']
    fh = '  wv_FILE *f = malloc(sizeof(wv_FILE));\n  __CPROVER_assume(f != NULL);\n'
    ob('pipe_load_buffer', 'iobuffer__load_buffer', 'bool pad; iobuffer__load_buffer(b, f, pad);', ['wv_fread', 'wv_feof', 'wv_fgetc', 'wv_ungetc'], extra=fh, timeout=600,
       note='chunking, PKCS#7 padding (every pad byte, ghost index) and end-of-input detection for a symbolic 64-bit input length')
    ob('pipe_export_buffer', 'iobuffer__export_buffer', 'bool pad; iobuffer__export_buffer(b, f, pad);', ['wv_fwrite'], extra=fh, timeout=600,
       note='one write of the chunk; unpadding bounded by the block size; never more than 16*now bytes')
    ob('pipe_buffer_update', 'buffergroup__buffer_update', 'g->turn = id; g->fin = f; g->fout = f2; buffergroup__buffer_update(g);',
       ['bufferctrl__cmpstate', 'iobuffer__export_buffer', 'iobuffer__load_buffer', 'bufferctrl__set_ready'], group=True, timeout=600,
       extra=fh + '  wv_FILE *f2 = malloc(sizeof(wv_FILE));\n  __CPROVER_assume(f2 != NULL);\n',
       note='[C03] flush exactly when handed back, before the refill; [C04 lemma 6] over is raised by the first chunk that is not FULL and then every visited buffer is retired')
    ob('pipe_turn_iter', 'buffergroup__turn_iter', 'buffergroup__turn_iter(g);', ['bufferctrl__cmpstate'], group=True, timeout=600,
       note='[C04 lemma 5] the do-while terminates within `size` steps given live_num == number of non-retired buffers; false iff none is left')
    nrb = 0
    for T in T_VALUES:
        ob('pipe_run_buffer_T%d' % T, 'buffergroup__run_buffer', 'g->size = WV_T_FIX; g->fin = f; g->fout = f2; wv_worker_mask = 0xffffu; buffergroup__run_buffer(g);',
           ['bufferctrl__wait_update', 'buffergroup__buffer_update', 'buffergroup__turn_iter'], group=True, timeout=2400, defines_extra=['WV_T_FIX=%d' % T],
           tier='quick' if T in (1, 2) else 'thorough',
           extra=fh + '  wv_FILE *f2 = malloc(sizeof(wv_FILE));\n  __CPROVER_assume(f2 != NULL);\n',
           note='the I/O thread\'s loop under the rely (workers act on READY buffers only): callee preconditions hold at every turn [C14], the loop '
                'leaves with every buffer retired and the input exhausted, each turn decreases (input left, live buffers) [C04], bytes written <= bytes read '
                '(+16 when padding) [C11], output appended once [C03] (T = %d buffers)' % T)
        nrb += 1
    for T in T_LIGHT:
        o.append(Ob('pipe_run_multicry_T%d' % T, IO + ['C04', 'C15'], enforce='multicry_master__run_multicry', replace=['buffergroup__run_buffer'], contracts=PIPE['contracts'],
                    defines=PIPE['defines'] + ['WV_T_FIX=%d' % T], unwind=T + 2, timeout=1800, tier='quick' if T in (1, 2) else 'thorough',
                    note='the sequential summary of one pipeline run used by execute_encrypt / execute_decrypt, proved from the contract of the I/O thread\'s loop '
                         '(run_buffer, itself proved under the workers\' rely): T workers started on buffer i with stream i and all joined; every buffer retired; '
                         'encryption appends exactly 16(floor(n/16)+1) bytes, decryption at most n; appended once, nothing before the old end touched (T = %d)' % T))
    nmc = len(T_LIGHT)
    for x in o[-(4 + nrb + nmc):-nmc]:
        x.props = IO + (['C04'] if 'turn_iter' in x.name or 'buffer_update' in x.name or 'run_buffer' in x.name else [])
    return o


B64 = dict(contracts=['b64.h'], unwind=34, defines=['WV_CLI'])


def b64_obligations():
    o = []
    bound_dec = 'decoder explored for inputs of 0, 4, 8 and 24 symbols (24 is the only length the program decodes)'
    bound = 'codec loops unwound for inputs of at most 24 bytes / 32 symbols (covers every length the program itself uses: 16 <-> 24)'
    o.append(Ob('b64_group_lemma', ['C16'], timeout=300, **B64, harness='''
void h_b64_group_lemma(void)
{
  unsigned char in[3], out[4];
  int rem;
  __CPROVER_assume(rem >= 1 && rem <= 3);
  for (int j = 0; j < 4; ++j)
    out[j] = spec_b64_enc_char(in, rem, j);
  /* decoding the encoded group gives the bytes back (all 2^24 groups, all three tail shapes) */
  for (int j = 0; j < 3; ++j)
    if (j < rem)
      __CPROVER_assert(spec_b64_dec_byte(out, j) == in[j], "[C16] RFC 4648 group decode inverts group encode");
  unsigned v;
  __CPROVER_assume(v < 64);
  __CPROVER_assert(hex_tab[b64_tab[v]] == v && spec_b64_char(v) == b64_tab[v], "[C16] encode table is the RFC 4648 alphabet and the decode table inverts it");
  unsigned char c;
  __CPROVER_assume(c < 128);
  __CPROVER_assert((hex_tab[c] == 255) == (spec_b64_index(c) < 0) && (spec_b64_index(c) >= 0 ==> hex_tab[c] == spec_b64_index(c)), "[C16] decode table marks exactly the non-alphabet characters");
  __CPROVER_assert(0, "WV_CANARY");
}''', note='complete: all 2^24 input groups, all 64 alphabet indices, all 128 table entries'))
    o.append(Ob('b64_encode', ['C16'], enforce='hex_to_base64', timeout=900, bounded=bound, **B64))
    o.append(Ob('b64_decode', ['C16'], enforce='base64_to_hex', timeout=900, bounded=bound_dec, contracts=['b64.h'], unwind=26, tier='thorough',
                note='measured: CBMC runs out of 12 GB during propositional reduction for the contract-instrumented decoder; kept in the thorough tier only'))
    # the decoder on the one input shape the program uses (24 symbols, an accepted key string), as a plain harness over the
    # real function: every accepted key string, output compared with the RFC 4648 group function, bounds of the 16-byte buffer
    o.append(Ob('b64_decode_key', ['C16', 'C17'], timeout=600, unwind=26, contracts=['b64.h'], harness='''
void h_b64_decode_key(void)
{
  u8_t in[24], out[16];
  __CPROVER_assume(spec_b64_is_key_string(in));
  unsigned g, j;
  __CPROVER_assume(g < 6 && j < 3 && 3 * g + j < 16);
#pragma CPROVER check pop
  bool r = base64_to_hex(in, 24, out);
#pragma CPROVER check push
#pragma CPROVER check disable "bounds"
#pragma CPROVER check disable "pointer"
  __CPROVER_assert(r, "[C16] decoding an accepted key string succeeds");
  __CPROVER_assert(out[3 * g + j] == spec_b64_dec_byte(in + 4 * g, j), "[C16] an accepted key string decodes to the RFC 4648 value of its groups, inside the 16-byte buffer");
  __CPROVER_assert(0, "WV_CANARY");
}''', note='complete for this input shape: all accepted 24-symbol key strings; the automatic bounds checks of the real decoder body are on'))
    o.append(Ob('b64_validator', ['C16', 'C17'], enforce='is_valid_b64', timeout=300, **B64,
                note='complete: every 24-byte string and every int length; result == (len == 24 and the string is the encoding of a 16-byte value)'))
    o.append(Ob('b64_validator_other_lengths', ['C16', 'C17'], **B64, harness='''
void h_b64_validator_other_lengths(void)
{
  int len;
  __CPROVER_assume(len != 24);
  /* no readable memory at all: the validator must decide on the length alone */
  __CPROVER_assert(!is_valid_b64((const u8_t *)0, len), "[C16] strings whose length is not 24 are rejected without being read");
  __CPROVER_assert(0, "WV_CANARY");
}'''))
    o.append(Ob('b64_getArgsKey', ['C16', 'C17'], enforce='getArgsKey', replace=['base64_to_hex'], **B64,
                note='an accepted key string decodes to exactly 16 bytes inside the 16-byte key buffer'))
    return o


def all_obligations():
    return aes_obligations() + mode_obligations() + hash_obligations() + fheader_obligations() + cry_obligations() + pipeline_obligations() + b64_obligations()

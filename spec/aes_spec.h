/* FIPS-197 (AES-128) written from the standard: GF(2^8) arithmetic by xtime, S-box as x^254 followed by the affine
   map (no table), ShiftRows / MixColumns / AddRoundKey on the 4x4 state s[r][c], one key-expansion step.
   The 128-bit values used in contracts hold state byte s[r][c] at bit position 8*(4r+c) (the memory image of the
   repository's state_t on a little-endian machine).
   Opacity (DESIGN.md 5.1): the cipher is specified as a composition of the round functions below; in obligations
   that only need the *structure* the round functions are CBMC uninterpreted functions; the obligation that proves a
   round function against FIPS-197 is compiled with WV_REVEAL_AES, which makes the same names the transparent spec. */
#ifndef AES_SPEC_H
#define AES_SPEC_H
#ifdef WV_CBMC
#pragma CPROVER check push
#pragma CPROVER check disable "bounds"
#pragma CPROVER check disable "pointer"
#pragma CPROVER check disable "signed-overflow"
#pragma CPROVER check disable "unsigned-overflow"
#pragma CPROVER check disable "conversion"
#pragma CPROVER check disable "undefined-shift"
#pragma CPROVER check disable "pointer-overflow"
#pragma CPROVER check disable "pointer-primitive"
#pragma CPROVER check disable "div-by-zero"
#endif
typedef unsigned __int128 wv_u128;
typedef struct { unsigned char b[4][4]; } spec_st;

static inline spec_st spec_unpack(wv_u128 x)
{
  spec_st s;
  for (int r = 0; r < 4; ++r)
    for (int c = 0; c < 4; ++c)
      s.b[r][c] = (unsigned char)(x >> (8 * (4 * r + c)));
  return s;
}
static inline wv_u128 spec_pack(spec_st s)
{
  wv_u128 x = 0;
  for (int r = 0; r < 4; ++r)
    for (int c = 0; c < 4; ++c)
      x |= ((wv_u128)s.b[r][c]) << (8 * (4 * r + c));
  return x;
}
static inline unsigned char spec_xtime(unsigned char x) { return (unsigned char)((x << 1) ^ ((x & 0x80) ? 0x1b : 0)); }
static inline unsigned char spec_gmul_T(unsigned char a, unsigned char b)
{
  unsigned char p = 0;
  for (int i = 0; i < 8; ++i)
  {
    if (b & 1)
      p ^= a;
    a = spec_xtime(a);
    b >>= 1;
  }
  return p;
}
/* opacity layer 0 (only for the MixColumns inverse lemma): GF(2^8) multiplication as an uninterpreted function */
#if defined(WV_CBMC) && defined(WV_OPAQUE_GMUL)
unsigned char __CPROVER_uninterpreted_gmul(unsigned char a, unsigned char b);
#define spec_gmul __CPROVER_uninterpreted_gmul
#else
#define spec_gmul spec_gmul_T
#endif
static inline unsigned char spec_ginv(unsigned char x)
{
  /* x^254 = x^(2+4+8+16+32+64+128) */
  unsigned char x2 = spec_gmul(x, x), x4 = spec_gmul(x2, x2), x8 = spec_gmul(x4, x4), x16 = spec_gmul(x8, x8);
  unsigned char x32 = spec_gmul(x16, x16), x64 = spec_gmul(x32, x32), x128 = spec_gmul(x64, x64);
  return spec_gmul(spec_gmul(spec_gmul(x2, x4), spec_gmul(x8, x16)), spec_gmul(spec_gmul(x32, x64), x128));
}
#define SPEC_ROL8(b, n) ((unsigned char)(((b) << (n)) | ((b) >> (8 - (n)))))
static inline unsigned char spec_sbox(unsigned char x)
{
  unsigned char b = spec_ginv(x);
  return (unsigned char)(b ^ SPEC_ROL8(b, 1) ^ SPEC_ROL8(b, 2) ^ SPEC_ROL8(b, 3) ^ SPEC_ROL8(b, 4) ^ 0x63);
}
static inline unsigned char spec_isbox(unsigned char y)
{
  unsigned char b = (unsigned char)(SPEC_ROL8(y, 1) ^ SPEC_ROL8(y, 3) ^ SPEC_ROL8(y, 6) ^ 0x05);
  return spec_ginv(b);
}
static inline unsigned char spec_rcon(int round) /* x^(round-1) */
{
  unsigned char r = 1;
  for (int i = 1; i < 11; ++i)
    if (i < round)
      r = spec_xtime(r);
  return r;
}

/* ---- the four transformations and their inverses (FIPS-197 5.1, 5.3) on packed states */
static inline wv_u128 spec_subbytes_T(wv_u128 x)
{
  spec_st s = spec_unpack(x);
  for (int r = 0; r < 4; ++r)
    for (int c = 0; c < 4; ++c)
      s.b[r][c] = spec_sbox(s.b[r][c]);
  return spec_pack(s);
}
static inline wv_u128 spec_invsubbytes_T(wv_u128 x)
{
  spec_st s = spec_unpack(x);
  for (int r = 0; r < 4; ++r)
    for (int c = 0; c < 4; ++c)
      s.b[r][c] = spec_isbox(s.b[r][c]);
  return spec_pack(s);
}
static inline wv_u128 spec_shiftrows_T(wv_u128 x)
{
  spec_st s = spec_unpack(x), t;
  for (int r = 0; r < 4; ++r)
    for (int c = 0; c < 4; ++c)
      t.b[r][c] = s.b[r][(c + r) & 3];
  return spec_pack(t);
}
static inline wv_u128 spec_invshiftrows_T(wv_u128 x)
{
  spec_st s = spec_unpack(x), t;
  for (int r = 0; r < 4; ++r)
    for (int c = 0; c < 4; ++c)
      t.b[r][(c + r) & 3] = s.b[r][c];
  return spec_pack(t);
}
static inline wv_u128 spec_mixcolumns_T(wv_u128 x)
{
  spec_st s = spec_unpack(x), t;
  for (int c = 0; c < 4; ++c)
  {
    unsigned char a0 = s.b[0][c], a1 = s.b[1][c], a2 = s.b[2][c], a3 = s.b[3][c];
    t.b[0][c] = (unsigned char)(spec_gmul(2, a0) ^ spec_gmul(3, a1) ^ a2 ^ a3);
    t.b[1][c] = (unsigned char)(a0 ^ spec_gmul(2, a1) ^ spec_gmul(3, a2) ^ a3);
    t.b[2][c] = (unsigned char)(a0 ^ a1 ^ spec_gmul(2, a2) ^ spec_gmul(3, a3));
    t.b[3][c] = (unsigned char)(spec_gmul(3, a0) ^ a1 ^ a2 ^ spec_gmul(2, a3));
  }
  return spec_pack(t);
}
static inline wv_u128 spec_invmixcolumns_T(wv_u128 x)
{
  spec_st s = spec_unpack(x), t;
  for (int c = 0; c < 4; ++c)
  {
    unsigned char a0 = s.b[0][c], a1 = s.b[1][c], a2 = s.b[2][c], a3 = s.b[3][c];
    t.b[0][c] = (unsigned char)(spec_gmul(0x0e, a0) ^ spec_gmul(0x0b, a1) ^ spec_gmul(0x0d, a2) ^ spec_gmul(0x09, a3));
    t.b[1][c] = (unsigned char)(spec_gmul(0x09, a0) ^ spec_gmul(0x0e, a1) ^ spec_gmul(0x0b, a2) ^ spec_gmul(0x0d, a3));
    t.b[2][c] = (unsigned char)(spec_gmul(0x0d, a0) ^ spec_gmul(0x09, a1) ^ spec_gmul(0x0e, a2) ^ spec_gmul(0x0b, a3));
    t.b[3][c] = (unsigned char)(spec_gmul(0x0b, a0) ^ spec_gmul(0x0d, a1) ^ spec_gmul(0x09, a2) ^ spec_gmul(0x0e, a3));
  }
  return spec_pack(t);
}
/* one key-expansion step (FIPS-197 5.2): next round key from the previous one; column c of the state is word w[4i+c] */
static inline wv_u128 spec_nextkey_T(wv_u128 prev, int round)
{
  spec_st k = spec_unpack(prev), n;
  for (int r = 0; r < 4; ++r)
    n.b[r][0] = (unsigned char)(k.b[r][0] ^ spec_sbox(k.b[(r + 1) & 3][3]) ^ (r == 0 ? spec_rcon(round) : 0));
  for (int c = 1; c < 4; ++c)
    for (int r = 0; r < 4; ++r)
      n.b[r][c] = (unsigned char)(n.b[r][c - 1] ^ k.b[r][c]);
  return spec_pack(n);
}
/* FIPS-197 3.4: input byte in[r + 4c] is state byte s[r][c] */
static inline wv_u128 spec_load(const unsigned char *in)
{
  spec_st s;
  for (int r = 0; r < 4; ++r)
    for (int c = 0; c < 4; ++c)
      s.b[r][c] = in[r + 4 * c];
  return spec_pack(s);
}
static inline unsigned char spec_store_byte(wv_u128 x, int i) /* out[i], i = r + 4c */
{
  return (unsigned char)(x >> (8 * (4 * (i & 3) + (i >> 2))));
}

/* ---- opacity layer 1: the step functions are uninterpreted unless WV_REVEAL_AES_STEPS */
#if defined(WV_CBMC) && !defined(WV_REVEAL_AES_STEPS)
wv_u128 __CPROVER_uninterpreted_subbytes(wv_u128 s);
wv_u128 __CPROVER_uninterpreted_invsubbytes(wv_u128 s);
wv_u128 __CPROVER_uninterpreted_shiftrows(wv_u128 s);
wv_u128 __CPROVER_uninterpreted_invshiftrows(wv_u128 s);
wv_u128 __CPROVER_uninterpreted_mixcolumns(wv_u128 s);
wv_u128 __CPROVER_uninterpreted_invmixcolumns(wv_u128 s);
wv_u128 __CPROVER_uninterpreted_nextkey(wv_u128 s, int round);
#define spec_subbytes __CPROVER_uninterpreted_subbytes
#define spec_invsubbytes __CPROVER_uninterpreted_invsubbytes
#define spec_shiftrows __CPROVER_uninterpreted_shiftrows
#define spec_invshiftrows __CPROVER_uninterpreted_invshiftrows
#define spec_mixcolumns __CPROVER_uninterpreted_mixcolumns
#define spec_invmixcolumns __CPROVER_uninterpreted_invmixcolumns
#define spec_nextkey __CPROVER_uninterpreted_nextkey
#else
#define spec_subbytes spec_subbytes_T
#define spec_invsubbytes spec_invsubbytes_T
#define spec_shiftrows spec_shiftrows_T
#define spec_invshiftrows spec_invshiftrows_T
#define spec_mixcolumns spec_mixcolumns_T
#define spec_invmixcolumns spec_invmixcolumns_T
#define spec_nextkey spec_nextkey_T
#endif

/* ---- round functions: Cipher() / InvCipher() of FIPS-197 Fig. 5 / Fig. 12 cut at the AddRoundKey that starts each
   round of the repository's formulation (AddRoundKey first, then SubBytes, ShiftRows, MixColumns) */
static inline wv_u128 spec_encround_T(wv_u128 s, wv_u128 k) { return spec_mixcolumns(spec_shiftrows(spec_subbytes(s ^ k))); }
static inline wv_u128 spec_enclast_T(wv_u128 s, wv_u128 k9, wv_u128 k10) { return spec_shiftrows(spec_subbytes(s ^ k9)) ^ k10; }
static inline wv_u128 spec_decfirst_T(wv_u128 s, wv_u128 k9, wv_u128 k10) { return spec_invsubbytes(spec_invshiftrows(s ^ k10)) ^ k9; }
static inline wv_u128 spec_decround_T(wv_u128 s, wv_u128 k) { return spec_invsubbytes(spec_invshiftrows(spec_invmixcolumns(s))) ^ k; }

/* ---- opacity layer 2: the round functions are uninterpreted unless WV_REVEAL_AES_ROUNDS */
#if defined(WV_CBMC) && !defined(WV_REVEAL_AES_ROUNDS)
wv_u128 __CPROVER_uninterpreted_encround(wv_u128 s, wv_u128 k);
wv_u128 __CPROVER_uninterpreted_enclast(wv_u128 s, wv_u128 k9, wv_u128 k10);
wv_u128 __CPROVER_uninterpreted_decfirst(wv_u128 s, wv_u128 k9, wv_u128 k10);
wv_u128 __CPROVER_uninterpreted_decround(wv_u128 s, wv_u128 k);
#define spec_encround __CPROVER_uninterpreted_encround
#define spec_enclast __CPROVER_uninterpreted_enclast
#define spec_decfirst __CPROVER_uninterpreted_decfirst
#define spec_decround __CPROVER_uninterpreted_decround
#else
#define spec_encround spec_encround_T
#define spec_enclast spec_enclast_T
#define spec_decfirst spec_decfirst_T
#define spec_decround spec_decround_T
#endif

/* Cipher(in, K[0..10]) and InvCipher as the composition of round functions.
   Cipher: s = in; for r=0..8: s = MixColumns(ShiftRows(SubBytes(s ^ K[r]))); out = ShiftRows(SubBytes(s ^ K[9])) ^ K[10]
   which is FIPS-197 Fig. 5 with the AddRoundKey of round r+1 moved to the start of the next iteration. */
static inline wv_u128 spec_cipher(wv_u128 s, const wv_u128 *K)
{
  for (int r = 0; r < 9; ++r)
    s = spec_encround(s, K[r]);
  return spec_enclast(s, K[9], K[10]);
}
static inline wv_u128 spec_invcipher(wv_u128 s, const wv_u128 *K)
{
  s = spec_decfirst(s, K[9], K[10]);
  for (int r = 8; r >= 0; --r)
    s = spec_decround(s, K[r]);
  return s;
}
/* the same two functions with the eleven round keys passed by value (cheaper for the verifier: no array object) */
#define SPEC_CIPHER11(s, k0, k1, k2, k3, k4, k5, k6, k7, k8, k9, k10) \
  spec_enclast(spec_encround(spec_encround(spec_encround(spec_encround(spec_encround(spec_encround(spec_encround( \
  spec_encround(spec_encround(s, k0), k1), k2), k3), k4), k5), k6), k7), k8), k9, k10)
#define SPEC_INVCIPHER11(s, k0, k1, k2, k3, k4, k5, k6, k7, k8, k9, k10) \
  spec_decround(spec_decround(spec_decround(spec_decround(spec_decround(spec_decround(spec_decround(spec_decround( \
  spec_decround(spec_decfirst(s, k9, k10), k8), k7), k6), k5), k4), k3), k2), k1), k0)
#ifdef WV_CBMC
#pragma CPROVER check pop
#endif
#endif

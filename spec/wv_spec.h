#ifndef WV_SPEC_H
#define WV_SPEC_H
#ifdef WV_USE_SPEC_AES
#include "aes_spec.h"
#endif
#endif

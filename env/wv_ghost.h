/* Ghost state referenced by the in-place WV_GHOST / WV_ASSERT / WV_LOOP annotations in /repo (DESIGN.md 2.3, 4 P-C, P-F).
   Ghost variables are ordinary C globals of the verification build; they exist only in the extracted text. */
#ifndef WV_GHOST_H
#define WV_GHOST_H
#include "hash_spec.h"
/* --- hashes: log of compression-function calls (P-C) observed at one harness-chosen call number and byte index (P-F) */
/* the mutable part of the log is ONE object (a single assigns target keeps CBMC's frame checks cheap) */
struct wv_hl_t
{
  unsigned long long n;          /* number of compression calls so far */
  unsigned char wbyte;           /* byte wv_g of the block given to call wv_hl_watch */
  const unsigned char *wptr;     /* pointer given to call wv_hl_watch */
  const unsigned char *fptr;     /* arguments of the last final-block call: tail pointer, tail length, bit count before */
  unsigned fr;
  unsigned long long ftotal;
  unsigned rounds;               /* rounds executed by the current compression call */
  struct wv_v8 { spec_u32 v[8]; } snap_h, snap_t;
} wv_hl;
#define wv_hl_n wv_hl.n
#define wv_hl_wbyte wv_hl.wbyte
#define wv_hl_wptr wv_hl.wptr
#define wv_hl_fptr wv_hl.fptr
#define wv_hl_fr wv_hl.fr
#define wv_hl_ftotal wv_hl.ftotal
#define wv_rounds wv_hl.rounds
#define wv_snap_h wv_hl.snap_h.v
#define wv_snap_t wv_hl.snap_t.v
unsigned long long wv_hl_watch;   /* the call whose block is observed (chosen by the harness, never assigned) */
unsigned wv_g;                    /* observed byte index inside a 64-byte block */
unsigned wv_gw;                   /* observed word index inside a message schedule */
unsigned char *wv_hl_out;         /* digest buffer of the last driver call (getStringHash / getFileHash) */
#define WV_ARR(a) __CPROVER_object_upto(a, sizeof(a))
#define WV_HGHOSTS wv_hl
#define WV_HLOG_BLOCK(p) { if (wv_hl_n == wv_hl_watch) { wv_hl_wbyte = (p)[wv_g]; wv_hl_wptr = (p); } wv_hl_n++; }
#define WV_HLOG_FINAL(p, r, total) { wv_hl_fptr = (p); wv_hl_fr = (r); wv_hl_ftotal = (total); }
#define WV_MD5_EQ(m, a, b, c, d) ((m).v[0] == (a) && (m).v[1] == (b) && (m).v[2] == (c) && (m).v[3] == (d))
#define WV_V8(a, n) ((struct wv_v8){{(a)[0], (a)[1], (a)[2], (a)[3], (n) > 4 ? (a)[(n) > 4 ? 4 : 0] : 0, (n) > 5 ? (a)[(n) > 5 ? 5 : 0] : 0, (n) > 6 ? (a)[(n) > 6 ? 6 : 0] : 0, (n) > 7 ? (a)[(n) > 7 ? 7 : 0] : 0}})
/* one struct assignment = one frame check */
#define WV_SNAP_H(a, n) { wv_hl.snap_h = WV_V8(a, n); }
#define WV_SNAP_T(a, n) { wv_hl.snap_t = WV_V8(a, n); }
/* --- hashing buffer (filebuffer64) as an abstract stream of units: [64-byte prefix block] 64, 64, ..., 64, short (< 64) */
unsigned long long wv_fb_left0;   /* bytes left in the stream when getFileHash started */
#define WV_FB(p) ((filebuffer64 *)(p))
#define WV_FILE_STATE(f) (f)->pos, (f)->eof
#define WV_FB_STATE(fb) WV_ARR((fb)->b), (fb)->has_extra, (fb)->total, (fb)->now, (fb)->tail, (fb)->fp->pos, (fb)->fp->eof
/* bytes the stream will still deliver: prefix block, buffered units from `now` on, the buffered tail, the rest of the file */
/* (the _F variants name the file object explicitly: CBMC cannot resolve a dereference through a pointer field that a contract has just havocked) */
#define WV_FB_LEFT_F(fb, f) (((fb)->has_extra ? 64ull : 0ull) + ((fb)->now <= (fb)->total ? 64ull * ((fb)->total - (fb)->now) + (fb)->tail : 0ull) + ((f)->len - (f)->pos))
#define WV_FB_LEFT(fb) WV_FB_LEFT_F(fb, (fb)->fp)
#define WV_FB_DONE(fb) ((fb)->now > (fb)->total)
/* representation invariant: a buffer that is not full means the file is exhausted */
#define WV_FB_OK_F(fb, f) ((f)->open && (f)->pos <= (f)->len && (f)->len < (1ull << 58) && (fb)->total <= filebuffer64__HBUF_SZ && (fb)->tail < 64 && \
  (fb)->now <= (fb)->total + 1 && (fb)->now <= filebuffer64__HBUF_SZ && ((fb)->total == filebuffer64__HBUF_SZ ==> (fb)->tail == 0) && \
  (((fb)->total < filebuffer64__HBUF_SZ) ==> (f)->pos == (f)->len))
#define WV_FB_OK(fb) WV_FB_OK_F(fb, (fb)->fp)
/* --- HMAC: length of the authenticated region when getres started; copy of the tag before its buffer is freed */
unsigned long long wv_flen0;
struct wv_tag_t { unsigned char b[32]; } wv_tagv;
#define wv_tag wv_tagv.b
#define WV_T1(p, n, k) ((k) < (n) ? (p)[(k) < (n) ? (k) : 0] : 0)
#define WV_T8(p, n, k) WV_T1(p, n, k), WV_T1(p, n, k + 1), WV_T1(p, n, k + 2), WV_T1(p, n, k + 3), WV_T1(p, n, k + 4), WV_T1(p, n, k + 5), WV_T1(p, n, k + 6), WV_T1(p, n, k + 7)
#define WV_SNAP_TAG(p, n) { wv_tagv = (struct wv_tag_t){{WV_T8(p, n, 0), WV_T8(p, n, 8), WV_T8(p, n, 16), WV_T8(p, n, 24)}}; }
/* --- ghost file: one harness-chosen absolute offset of the output file is observed (P-F) */
unsigned long long wv_wP;         /* observed output offset (chosen by the harness, never assigned) */
struct wv_w_t
{
  unsigned char wbyte;            /* the byte most recently written at wv_wP */
  _Bool seen;                     /* some write covered wv_wP */
  unsigned long long count;       /* number of writes that covered wv_wP */
} wv_w;
#define wv_wbyte wv_w.wbyte
#define wv_wseen wv_w.seen
#define wv_wcount wv_w.count
#define WV_FILE_WSTATE(f) *(f), wv_w
#define WV_TAGEQ1(o, L, k) ((L) <= (k) || (o)[k] == wv_tag[k])
#define WV_TAGEQ8(o, L, k) (WV_TAGEQ1(o, L, k) && WV_TAGEQ1(o, L, k + 1) && WV_TAGEQ1(o, L, k + 2) && WV_TAGEQ1(o, L, k + 3) && WV_TAGEQ1(o, L, k + 4) && WV_TAGEQ1(o, L, k + 5) && WV_TAGEQ1(o, L, k + 6) && WV_TAGEQ1(o, L, k + 7))
/* all L bytes of o equal the computed tag */
#define WV_TAGEQ(o, L) (WV_TAGEQ8(o, L, 0) && WV_TAGEQ8(o, L, 8) && WV_TAGEQ8(o, L, 16) && WV_TAGEQ8(o, L, 24))

/* the ghost copy is the tag: wv_tag[k] == p[k] for every k < L */
#define WV_TAGIS1(p, L, k) ((L) <= (k) || (p)[k] == wv_tag[k])
#define WV_TAGIS8(p, L, k) (WV_TAGIS1(p, L, k) && WV_TAGIS1(p, L, k + 1) && WV_TAGIS1(p, L, k + 2) && WV_TAGIS1(p, L, k + 3) && WV_TAGIS1(p, L, k + 4) && WV_TAGIS1(p, L, k + 5) && WV_TAGIS1(p, L, k + 6) && WV_TAGIS1(p, L, k + 7))
#define WV_TAG_IS(p, L) (WV_TAGIS8(p, L, 0) && WV_TAGIS8(p, L, 8) && WV_TAGIS8(p, L, 16) && WV_TAGIS8(p, L, 24))
/* --- content of input files: an uninterpreted function of (file identity, offset); seed string length for strlen */
unsigned char __CPROVER_uninterpreted_filebyte(int id, unsigned long long off);
#define wv_filebyte __CPROVER_uninterpreted_filebyte
unsigned long long wv_rP;         /* observed absolute offset of reads (chosen by the harness, never assigned) */
unsigned long long wv_slen;       /* length of the seed string (what strlen returns) */
unsigned wv_gi;                   /* observed index into the IV table */
/* --- verify(): the magic-number verdict as a ghost (so that contracts up the call chain need not repeat eight file bytes) */
_Bool wv_magic_ok;
/* --- thread-modular pipeline proofs (P-E): the control block and chunk buffer under consideration (chosen by the harness, never
   assigned), and the mutable log of hand-over events */
struct bufferctrl;
struct iobuffer;
struct bufferctrl *wv_c;
struct iobuffer *wv_b;
struct wv_pl_t
{
  unsigned long long entries;       /* blocks handed to the worker by require_buffer_entry */
  unsigned long long runs;          /* blocks given to a stream object by the worker */
  const unsigned char *last_entry;  /* the most recent block handed out */
  const unsigned char *last_run;    /* the most recent block transformed */
  const void *last_mode;            /* the stream object that transformed it */
  _Bool order_ok;                   /* every transformed block was the block most recently handed out, by the worker's own stream */
  _Bool notified_ready, notified_update;   /* a notify_all on the respective condition variable happened since the flag was cleared */
} wv_pl;
/* index-wise expansions over the (at most 16) buffers: when the number of buffers is a constant of the obligation (WV_T_FIX) the
   terms for the buffers that do not exist are left out by the preprocessor (CBMC dereferences every term of a contract clause before it
   simplifies, and the cost of that is quadratic in the number of dereferences - measured) */
#if !defined(WV_T_FIX) || WV_T_FIX > 1
#define WV_IF1(x) x
#else
#define WV_IF1(x)
#endif
#if !defined(WV_T_FIX) || WV_T_FIX > 2
#define WV_IF2(x) x
#else
#define WV_IF2(x)
#endif
#if !defined(WV_T_FIX) || WV_T_FIX > 3
#define WV_IF3(x) x
#else
#define WV_IF3(x)
#endif
#if !defined(WV_T_FIX) || WV_T_FIX > 4
#define WV_IF4(x) x
#else
#define WV_IF4(x)
#endif
#if !defined(WV_T_FIX) || WV_T_FIX > 5
#define WV_IF5(x) x
#else
#define WV_IF5(x)
#endif
#if !defined(WV_T_FIX) || WV_T_FIX > 6
#define WV_IF6(x) x
#else
#define WV_IF6(x)
#endif
#if !defined(WV_T_FIX) || WV_T_FIX > 7
#define WV_IF7(x) x
#else
#define WV_IF7(x)
#endif
#if !defined(WV_T_FIX) || WV_T_FIX > 8
#define WV_IF8(x) x
#else
#define WV_IF8(x)
#endif
#if !defined(WV_T_FIX) || WV_T_FIX > 9
#define WV_IF9(x) x
#else
#define WV_IF9(x)
#endif
#if !defined(WV_T_FIX) || WV_T_FIX > 10
#define WV_IF10(x) x
#else
#define WV_IF10(x)
#endif
#if !defined(WV_T_FIX) || WV_T_FIX > 11
#define WV_IF11(x) x
#else
#define WV_IF11(x)
#endif
#if !defined(WV_T_FIX) || WV_T_FIX > 12
#define WV_IF12(x) x
#else
#define WV_IF12(x)
#endif
#if !defined(WV_T_FIX) || WV_T_FIX > 13
#define WV_IF13(x) x
#else
#define WV_IF13(x)
#endif
#if !defined(WV_T_FIX) || WV_T_FIX > 14
#define WV_IF14(x) x
#else
#define WV_IF14(x)
#endif
#if !defined(WV_T_FIX) || WV_T_FIX > 15
#define WV_IF15(x) x
#else
#define WV_IF15(x)
#endif
#define WV_FOLD16(M, OP, g) (M(g, 0) WV_IF1(OP M(g, 1)) WV_IF2(OP M(g, 2)) WV_IF3(OP M(g, 3)) WV_IF4(OP M(g, 4)) WV_IF5(OP M(g, 5)) WV_IF6(OP M(g, 6)) WV_IF7(OP M(g, 7)) WV_IF8(OP M(g, 8)) WV_IF9(OP M(g, 9)) WV_IF10(OP M(g, 10)) WV_IF11(OP M(g, 11)) WV_IF12(OP M(g, 12)) WV_IF13(OP M(g, 13)) WV_IF14(OP M(g, 14)) WV_IF15(OP M(g, 15)))
#define WV_ST_OK(s) ((s) == EMPTY || (s) == UPDATING || (s) == READY || (s) == INV)
#define WV_IO_OWNED(s) ((s) == EMPTY || (s) == UPDATING)
#define WV_B_SAME_AS_ENTRY (wv_b->now == __CPROVER_loop_entry(wv_b->now) && wv_b->total == __CPROVER_loop_entry(wv_b->total) && \
  wv_b->tail == __CPROVER_loop_entry(wv_b->tail) && wv_b->isfinal == __CPROVER_loop_entry(wv_b->isfinal))
#define WV_WORKER_INV ((wv_c->state == READY || wv_c->state == INV) && WV_B_OK(wv_b) && (wv_c->state == INV ==> wv_b->now == wv_b->total) && !wv_c->lock.held)
#define WV_B_OK(ib) ((ib)->now <= (ib)->total && (ib)->total <= iobuffer__BUF_SZ && (ib)->tail < 16)
/* --- turn_iter: live_num counts the buffers that are not retired; cyclic arithmetic without division (P-H) */
unsigned wv_steps;
unsigned wv_pg;     /* ghost: observed byte position inside the padding block */
unsigned wv_gk;     /* ghost: observed worker index */
unsigned wv_worker_mask;   /* ghost: bit i is set when a worker thread has been started on buffer i (spawn model, wv_env.h) */
#define WV_ALL_WORKERS(n) ((wv_worker_mask & ((1u << (n)) - 1u)) == ((1u << (n)) - 1u))
#define WV_LIVE1(g, j) (((j) < (g)->size && (g)->ctrl[j].state != INV) ? 1 : 0)
#define WV_COUNT_LIVE(g) WV_FOLD16(WV_LIVE1, +, g)
#define WV_CD(n, a, x) ((unsigned)((x) >= (a) ? (x) - (a) : (x) + (n) - (a)))            /* cyclic distance from a to x */
#define WV_ADDM(n, a, k) ((unsigned)((a) + (k) >= (n) ? (a) + (k) - (n) : (a) + (k)))     /* (a + k) mod n for k <= n */
/* the buffers at cyclic distance 1..k from e are all retired */
#define WV_INVB1(g, e, k, x) (((x) < (g)->size && WV_CD((g)->size, e, x) >= 1 && WV_CD((g)->size, e, x) <= (k)) ==> (g)->ctrl[x].state == INV)
#define WV_INVB_SELF(g, e, k) (((k) >= (g)->size) ==> (g)->ctrl[e].state == INV)
#define WV_ALL_INV_BETWEEN(g, e, k) (WV_INVB1(g, e, k, 0) && WV_INVB1(g, e, k, 1) && WV_INVB1(g, e, k, 2) && WV_INVB1(g, e, k, 3) && WV_INVB1(g, e, k, 4) && \
  WV_INVB1(g, e, k, 5) && WV_INVB1(g, e, k, 6) && WV_INVB1(g, e, k, 7) && WV_INVB1(g, e, k, 8) && WV_INVB1(g, e, k, 9) && WV_INVB1(g, e, k, 10) && \
  WV_INVB1(g, e, k, 11) && WV_INVB1(g, e, k, 12) && WV_INVB1(g, e, k, 13) && WV_INVB1(g, e, k, 14) && WV_INVB1(g, e, k, 15) && WV_INVB_SELF(g, e, k) && \
  (g)->turn == WV_ADDM((g)->size, e, (k) >= (g)->size ? 0 : (k)))
/* --- run_buffer: the I/O thread's loop over the buffers (thread-modular: the workers' steps are the rely, applied to every
   buffer at the head of each turn and, for the buffer waited on, inside wait_update's contract).
   Per buffer j, facts that both the I/O thread's own steps and the workers' steps preserve: */
#define WV_IOB(g, j) ((g)->buflst[j])
#define WV_IOC(g, j) ((g)->ctrl[j])
#define WV_IOI1(g, j) ((j) >= (g)->size || (!WV_IOC(g, j).lock.held && WV_ST_OK(WV_IOC(g, j).state) && WV_B_OK(&WV_IOB(g, j)) && \
  (WV_IOC(g, j).state != READY ==> WV_IOB(g, j).now == WV_IOB(g, j).total) && (WV_IOC(g, j).state == EMPTY ==> WV_IOB(g, j).total == 0) && \
  ((WV_IOC(g, j).state == READY || WV_IOC(g, j).state == UPDATING) ==> (!WV_IOB(g, j).isfinal ==> WV_IOB(g, j).total == iobuffer__BUF_SZ))))
#define WV_IOI(g) WV_FOLD16(WV_IOI1, &&, g)
/* bytes loaded and not yet flushed: 16 * total of every buffer that is with a worker or handed back */
#define WV_PEND1(g, j) (((j) < (g)->size && (WV_IOC(g, j).state == READY || WV_IOC(g, j).state == UPDATING)) ? ((unsigned long long)WV_IOB(g, j).total << 4) : 0ull)
#define WV_PEND(g) WV_FOLD16(WV_PEND1, +, g)
/* the rely at the head of a turn: a worker may have taken further blocks of its READY buffer and, having taken all, handed it back */
#define WV_IO_LOOP_TURN(g) { wv_rely_workers(g); wv_c = &(g)->ctrl[(g)->turn]; wv_b = &(g)->buflst[(g)->turn]; }
#define WV_IO_LOOP_FRAME(g) (g)->turn, (g)->over, __CPROVER_object_whole((g)->ctrl), __CPROVER_object_whole((g)->buflst), bufferctrl__live_num, \
  (g)->fin->pos, (g)->fin->eof, WV_FILE_WSTATE((g)->fout), wv_c, wv_b, wv_steps, wv_pl.notified_ready, wv_pl.notified_update
/* the invariant at the head of a turn; fp0 / op0 / nb0 / wc0 / wb0 are the values on entry to the loop */
#define WV_IO_WRITTEN(g, nb0) ((g)->fout->nbytes - (nb0))
#define WV_IO_CONSUMED(g, fp0) ((g)->fin->pos - (fp0))
#define WV_IO_LOOP_INV(g, fp0, op0, nb0, wc0, wb0) ( \
  (g)->turn < (g)->size && WV_IOC(g, (g)->turn).state != INV && bufferctrl__live_num == WV_COUNT_LIVE(g) && bufferctrl__live_num >= 1 && WV_IOI(g) && \
  (g)->fin->open && (g)->fin->len < (1ull << 58) && (g)->fin->pos >= (fp0) && (g)->fin->pos <= ((fp0) > (g)->fin->len ? (fp0) : (g)->fin->len) && \
  (!(g)->over ==> !(g)->fin->eof) && ((g)->over ==> (g)->fin->pos >= (g)->fin->len) && \
  (g)->fout->open && (g)->fout->nbytes >= (nb0) && (g)->fout->pos == (op0) + WV_IO_WRITTEN(g, nb0) && (g)->fout->len == (g)->fout->pos && \
  (nb0) < (1ull << 59) && WV_IO_WRITTEN(g, nb0) <= WV_IO_CONSUMED(g, fp0) + 16 && \
  WV_IO_WRITTEN(g, nb0) + WV_PEND(g) <= WV_IO_CONSUMED(g, fp0) + (((g)->over && (g)->ispadding) ? 16 : 0) && \
  (bufferctrl__live_num < (g)->size ==> (g)->over) && \
  ((g)->ispadding ==> (WV_IO_WRITTEN(g, nb0) + WV_PEND(g) == ((g)->over ? (WV_IO_CONSUMED(g, fp0) & ~15ull) + 16 : WV_IO_CONSUMED(g, fp0)) && \
                       (!(g)->over ==> (WV_IO_CONSUMED(g, fp0) % iobuffer__sum) == 0))) && \
  ((wv_wP >= (op0) && wv_wP < (g)->fout->pos) ? wv_wcount == (wc0) + 1 : (wv_wcount == (wc0) && wv_wbyte == (wb0))))
/* lexicographic: input left to load (0 once `over`), then buffers not yet retired */
#define WV_IO_LOOP_MEASURE(g) ((g)->over ? 0ull : 1ull + ((g)->fin->len > (g)->fin->pos ? (g)->fin->len - (g)->fin->pos : 0ull)), bufferctrl__live_num
/* --- prepare_AES: the observed streams are constants of the obligation (T is fixed there): stream 1 (if there is one) and the last */
#ifdef WV_T_FIX
#define WV_S1 ((WV_T_FIX) > 1 ? 1 : 0)
#define WV_SLAST ((WV_T_FIX) - 1)
#else
#define WV_S1 0
#define WV_SLAST 0
#endif
#define WV_STREAM(m, i) ((AesEncrypt *)(m)[i])
/* one 128-bit load per side: sixteen byte loads through a pointer that itself comes out of a heap array cost CBMC 16 x the case split */
#define WV_LOAD128(p) (*(const unsigned __int128 *)(const void *)(p))
#define WV_STREAM_IV_IS(m, i, p) (WV_LOAD128((m)[i]->initiv) == WV_LOAD128(p))
#define WV_STREAM_KEY_IS(m, i, k) (WV_LOAD128(WV_STREAM(m, i)->crypt._base.key.init_key) == WV_LOAD128(k))
#define WV_KEY16_EQ(a, b) ((a)[0] == (b)[0] && (a)[1] == (b)[1] && (a)[2] == (b)[2] && (a)[3] == (b)[3] && (a)[4] == (b)[4] && \
  (a)[5] == (b)[5] && (a)[6] == (b)[6] && (a)[7] == (b)[7] && (a)[8] == (b)[8] && (a)[9] == (b)[9] && (a)[10] == (b)[10] && \
  (a)[11] == (b)[11] && (a)[12] == (b)[12] && (a)[13] == (b)[13] && (a)[14] == (b)[14] && (a)[15] == (b)[15])
#define WV_TAG_FOR(isenc, type) ((type) == 0 ? ((isenc) ? WV_TAG_AesECB_Enc : WV_TAG_AesECB_Dec) : (type) == 1 ? ((isenc) ? WV_TAG_AesCBC_Enc : WV_TAG_AesCBC_Dec) : \
  (type) == 2 ? WV_TAG_AesCTR : (type) == 3 ? ((isenc) ? WV_TAG_AesCFB_Enc : WV_TAG_AesCFB_Dec) : WV_TAG_AesOFB)
#endif

/* Contracts for kernel/multi_aes/aes/aesmode.cpp (C10, C18, C02).  The block cipher calls are replaced by the contracts of
   aes.h, so the mode proofs are parametric in the (opaque) FIPS-197 cipher under the stream's key schedule. */
#ifndef WV_C_AESMODE_H
#define WV_C_AESMODE_H
#include "aes.h"
#include "modes_spec.h"
/* 16 bytes as a big-endian 128-bit integer (the CTR counter block) */
#define WV_BE(w) ( \
  ((wv_u128)(w)[0] << 120) | ((wv_u128)(w)[1] << 112) | ((wv_u128)(w)[2] << 104) | ((wv_u128)(w)[3] << 96) | \
  ((wv_u128)(w)[4] << 88) | ((wv_u128)(w)[5] << 80) | ((wv_u128)(w)[6] << 72) | ((wv_u128)(w)[7] << 64) | \
  ((wv_u128)(w)[8] << 56) | ((wv_u128)(w)[9] << 48) | ((wv_u128)(w)[10] << 40) | ((wv_u128)(w)[11] << 32) | \
  ((wv_u128)(w)[12] << 24) | ((wv_u128)(w)[13] << 16) | ((wv_u128)(w)[14] << 8) | ((wv_u128)(w)[15]))
#define WV_BE_OLD(w) ( \
  ((wv_u128)__CPROVER_old((w)[0]) << 120) | ((wv_u128)__CPROVER_old((w)[1]) << 112) | ((wv_u128)__CPROVER_old((w)[2]) << 104) | ((wv_u128)__CPROVER_old((w)[3]) << 96) | \
  ((wv_u128)__CPROVER_old((w)[4]) << 88) | ((wv_u128)__CPROVER_old((w)[5]) << 80) | ((wv_u128)__CPROVER_old((w)[6]) << 72) | ((wv_u128)__CPROVER_old((w)[7]) << 64) | \
  ((wv_u128)__CPROVER_old((w)[8]) << 56) | ((wv_u128)__CPROVER_old((w)[9]) << 48) | ((wv_u128)__CPROVER_old((w)[10]) << 40) | ((wv_u128)__CPROVER_old((w)[11]) << 32) | \
  ((wv_u128)__CPROVER_old((w)[12]) << 24) | ((wv_u128)__CPROVER_old((w)[13]) << 16) | ((wv_u128)__CPROVER_old((w)[14]) << 8) | ((wv_u128)__CPROVER_old((w)[15])))

void Aesmode__getXor(Aesmode *this, u8_t *x, u8_t *mask)
__CPROVER_requires(__CPROVER_is_fresh(x, 16) && __CPROVER_is_fresh(mask, 16))
__CPROVER_assigns(__CPROVER_object_upto(x, 16))
__CPROVER_ensures(WV_BLK(x) == (WV_BLK_OLD(x) ^ WV_BLK(mask)));

void Aesmode__ctor(Aesmode *this, const u8_t *iv)
__CPROVER_requires(__CPROVER_is_fresh(this, sizeof(*this)) && __CPROVER_is_fresh(iv, 16))
__CPROVER_assigns(*this)
__CPROVER_ensures(WV_KEY16_EQ(this->iv, iv) && WV_KEY16_EQ(this->initiv, iv) && this->_wv_tag == WV_TAG_Aesmode);

/* the stream's block cipher as a function of its (unchanged) key schedule */
#define WV_E(x) WV_AES_ENC_SPEC(&this->_base.crypt._base, x)
#define WV_D(x) WV_AES_DEC_SPEC(&this->_base.crypt._base, x)
#define WV_IV (this->_base._base.iv)
/* one step of a stream: block and feedback register afterwards are the SP 800-38A functions of block and register before;
   frame: only the block, the register and the cipher's scratch state are assigned (the key schedule and initiv are not) */
#define WV_MODE_CONTRACT(cls, OUT, NXT) \
void cls##__runcry(cls *this, u8_t *block) \
__CPROVER_requires(__CPROVER_is_fresh(this, sizeof(*this)) && __CPROVER_is_fresh(block, 16)) \
__CPROVER_assigns(__CPROVER_object_upto(block, 16), __CPROVER_object_upto(this->_base._base.iv, 16), this->_base.crypt._base.w) \
__CPROVER_ensures(WV_BLK(block) == OUT(WV_E, WV_D, WV_BLK_OLD(WV_IV), WV_BLK_OLD(block))) \
__CPROVER_ensures(WV_BLK(WV_IV) == NXT(WV_E, WV_D, WV_BLK_OLD(WV_IV), WV_BLK_OLD(block)));

WV_MODE_CONTRACT(AesECB_Enc, SPEC_ECB_ENC_OUT, SPEC_ECB_ENC_IV)
WV_MODE_CONTRACT(AesECB_Dec, SPEC_ECB_DEC_OUT, SPEC_ECB_DEC_IV)
WV_MODE_CONTRACT(AesCBC_Enc, SPEC_CBC_ENC_OUT, SPEC_CBC_ENC_IV)
WV_MODE_CONTRACT(AesCBC_Dec, SPEC_CBC_DEC_OUT, SPEC_CBC_DEC_IV)
WV_MODE_CONTRACT(AesCFB_Enc, SPEC_CFB_ENC_OUT, SPEC_CFB_ENC_IV)
WV_MODE_CONTRACT(AesCFB_Dec, SPEC_CFB_DEC_OUT, SPEC_CFB_DEC_IV)
WV_MODE_CONTRACT(AesOFB, SPEC_OFB_OUT, SPEC_OFB_IV)

void AesCTR__ctrInc(AesCTR *this)
__CPROVER_requires(__CPROVER_is_fresh(this, sizeof(*this)))
__CPROVER_assigns(__CPROVER_object_upto(this->_base._base.iv, 16))
__CPROVER_ensures(WV_BE(WV_IV) == SPEC_CTR_NEXT_BE(WV_BE_OLD(WV_IV)));

void AesCTR__runcry(AesCTR *this, u8_t *block)
__CPROVER_requires(__CPROVER_is_fresh(this, sizeof(*this)) && __CPROVER_is_fresh(block, 16))
__CPROVER_assigns(__CPROVER_object_upto(block, 16), __CPROVER_object_upto(this->_base._base.iv, 16), this->_base.crypt._base.w)
__CPROVER_ensures(WV_BLK(block) == SPEC_CTR_OUT(WV_E, WV_D, WV_BLK_OLD(WV_IV), WV_BLK_OLD(block)))
__CPROVER_ensures(WV_BE(WV_IV) == SPEC_CTR_NEXT_BE(WV_BE_OLD(WV_IV)));

/* constructors of the ten stream classes: key schedule from the 16 key bytes, register = first 16 bytes of the IV argument */
#define WV_MODE_CTOR(cls, mid) \
void cls##__ctor(cls *this, u8_t *key, const u8_t *iv) \
__CPROVER_requires(__CPROVER_is_fresh(this, sizeof(*this)) && __CPROVER_is_fresh(key, 16) && __CPROVER_is_fresh(iv, 16)) \
__CPROVER_assigns(*this) \
__CPROVER_ensures(WV_KS_OK(&this->_base.crypt._base.key) && WV_KEY16_EQ(this->_base.crypt._base.key.init_key, key)) \
__CPROVER_ensures(WV_KEY16_EQ(this->_base._base.iv, iv) && WV_KEY16_EQ(this->_base._base.initiv, iv)) \
__CPROVER_ensures(this->_base._base._wv_tag == WV_TAG_##cls);
WV_MODE_CTOR(AesECB_Enc, AesEncrypt)
WV_MODE_CTOR(AesECB_Dec, AesDecrypt)
WV_MODE_CTOR(AesCBC_Enc, AesEncrypt)
WV_MODE_CTOR(AesCBC_Dec, AesDecrypt)
WV_MODE_CTOR(AesCTR, AesEncrypt)
WV_MODE_CTOR(AesCFB_Enc, AesEncrypt)
WV_MODE_CTOR(AesCFB_Dec, AesEncrypt)
WV_MODE_CTOR(AesOFB, AesEncrypt)

void AesEncrypt__ctor(AesEncrypt *this, u8_t *key, const u8_t *iv)
__CPROVER_requires(__CPROVER_is_fresh(this, sizeof(*this)) && __CPROVER_is_fresh(key, 16) && __CPROVER_is_fresh(iv, 16))
__CPROVER_assigns(*this)
__CPROVER_ensures(WV_KS_OK(&this->crypt._base.key) && WV_KEY16_EQ(this->crypt._base.key.init_key, key))
__CPROVER_ensures(this->crypt._base._wv_tag == WV_TAG_encryaes)
__CPROVER_ensures(WV_KEY16_EQ(this->_base.iv, iv) && WV_KEY16_EQ(this->_base.initiv, iv));

void AesDecrypt__ctor(AesDecrypt *this, u8_t *key, const u8_t *iv)
__CPROVER_requires(__CPROVER_is_fresh(this, sizeof(*this)) && __CPROVER_is_fresh(key, 16) && __CPROVER_is_fresh(iv, 16))
__CPROVER_assigns(*this)
__CPROVER_ensures(WV_KS_OK(&this->crypt._base.key) && WV_KEY16_EQ(this->crypt._base.key.init_key, key))
__CPROVER_ensures(this->crypt._base._wv_tag == WV_TAG_decryaes)
__CPROVER_ensures(WV_KEY16_EQ(this->_base.iv, iv) && WV_KEY16_EQ(this->_base.initiv, iv));

/* factory: the class for (direction, mode number), built from the factory's key and IV pointers; NULL for unknown modes */
/* callers that do not look at the key schedule compile with WV_FACTORY_LIGHT: the same contract without the (large) schedule
   invariant in its postcondition -- a weaker assumption, proved in its strong form by the mode_factory obligation */
#ifdef WV_FACTORY_LIGHT
#define WV_FACTORY_KS(k) 1
#else
#define WV_FACTORY_KS(k) WV_KS_OK(k)
#endif
Aesmode *AesFactory__createCryMaster(AesFactory *this, bool isenc, u8_t type)
__CPROVER_requires(__CPROVER_is_fresh(this, sizeof(*this)) && __CPROVER_is_fresh(this->key, 16) && __CPROVER_is_fresh(this->iv, 16))
__CPROVER_assigns()
__CPROVER_ensures(type > 4 ==> __CPROVER_return_value == NULL)
__CPROVER_ensures(type <= 4 ==> (__CPROVER_is_fresh(__CPROVER_return_value, sizeof(AesEncrypt)) &&
  __CPROVER_return_value->_wv_tag == WV_TAG_FOR(isenc, type) &&
  WV_KEY16_EQ(__CPROVER_return_value->iv, this->iv) && WV_KEY16_EQ(__CPROVER_return_value->initiv, this->iv) &&
  WV_FACTORY_KS(&((AesEncrypt *)__CPROVER_return_value)->crypt._base.key) &&
  WV_KEY16_EQ(((AesEncrypt *)__CPROVER_return_value)->crypt._base.key.init_key, this->key)));
#endif

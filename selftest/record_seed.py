#!/usr/bin/env python3
"""record_seed.py <ID> <N> <source dir with patchN.diff / demoN.* / notes.md> <confirm log> -- files a confirmed seeded change under /verif/seeded/<ID>-<N>/"""
import json, os, re, shutil, sys

VERIF = os.path.dirname(os.path.dirname(os.path.abspath(__file__)))


def main():
    pid, n, src, log = sys.argv[1:5]
    dst = os.path.join(VERIF, 'seeded', '%s-%s' % (pid, n))
    os.makedirs(dst, exist_ok=True)
    shutil.copy(os.path.join(src, 'patch%s.diff' % n), os.path.join(dst, 'patch.diff'))
    for f in os.listdir(src):
        if f.startswith('demo%s.' % n) and not f.endswith('.log') or f in ('prefix_harness.h', 'demo_common.h'):
            shutil.copy(os.path.join(src, f), os.path.join(dst, f.replace('demo%s.' % n, 'demo.')))
    notes = open(os.path.join(src, 'notes.md')).read() if os.path.exists(os.path.join(src, 'notes.md')) else ''
    # the section of the notes about this change
    secs = re.split(r'\n(?=## )', notes)
    mine = [s for s in secs if re.match(r'## Change %s\b' % n, s)]
    title = mine[0].split('\n', 1)[0][3:].strip() if mine else ''
    text = open(log).read()
    m = re.search(r'== check %s on changed tree: exit (\d+)' % pid, text)
    rc = int(m.group(1)) if m else None
    failed = re.findall(r'failed obligation ([^\s:]+): (.*)', text)
    meta = {
        'property': pid, 'change': title,
        'produced_by': 'independent sub-agent given only the property text and a scratch worktree (nothing from /verif)',
        'confirmed': 'selftest/confirm_seed.sh: scratch worktree of /repo, build + stable ctest pass with and without the change, demonstration exits 0 without and '
                     'non-zero with the change, then the property\'s registered quick check run against the changed tree',
        'demo_clean_exit': (re.search(r'demo exit on clean tree: (\d+)', text) or [None, None])[1],
        'demo_changed_exit': (re.search(r'demo exit on changed tree: (\d+)', text) or [None, None])[1],
        'check_result': {0: 'exit 0 (NOT detected)', 1: 'exit 1 (VIOLATION)', 2: 'exit 2 (undecided)'}.get(rc, 'not run'),
        'caught_by': sorted({f[0] for f in failed})[:12],
        'first_failed_obligations': ['%s: %s' % f for f in failed[:6]],
        'confirm_log': text[-3000:],
    }
    if mine:
        meta['notes_excerpt'] = mine[0][:2500]
    json.dump(meta, open(os.path.join(dst, 'meta.json'), 'w'), indent=1)
    print(dst, meta['check_result'])


if __name__ == '__main__':
    main()

/* FIPS 180-4 (SHA-1, SHA-256) and RFC 1321 (MD5) written from the standards: one round/step function each, message
   schedule step, initial values, constants, and the padding rule.  Used in contracts and validated natively
   (selftest_hash.c: published vectors; wv/selftest.py: differential run against Python hashlib). */
#ifndef HASH_SPEC_H
#define HASH_SPEC_H
#ifdef WV_CBMC
#pragma CPROVER check push
#pragma CPROVER check disable "bounds"
#pragma CPROVER check disable "pointer"
#pragma CPROVER check disable "signed-overflow"
#pragma CPROVER check disable "unsigned-overflow"
#pragma CPROVER check disable "conversion"
#pragma CPROVER check disable "undefined-shift"
#pragma CPROVER check disable "pointer-overflow"
#pragma CPROVER check disable "pointer-primitive"
#pragma CPROVER check disable "div-by-zero"
#endif
typedef unsigned int spec_u32;
typedef unsigned long long spec_u64;
#define SPEC_ROTL(x, n) ((spec_u32)(((spec_u32)(x) << (n)) | ((spec_u32)(x) >> (32 - (n)))))
#define SPEC_ROTR(x, n) ((spec_u32)(((spec_u32)(x) >> (n)) | ((spec_u32)(x) << (32 - (n)))))
#define SPEC_BE32(p) ((spec_u32)(((spec_u32)(p)[0] << 24) | ((spec_u32)(p)[1] << 16) | ((spec_u32)(p)[2] << 8) | (spec_u32)(p)[3]))
#define SPEC_LE32(p) ((spec_u32)(((spec_u32)(p)[3] << 24) | ((spec_u32)(p)[2] << 16) | ((spec_u32)(p)[1] << 8) | (spec_u32)(p)[0]))

/* ------------------------------------------------------------------ SHA-256 (FIPS 180-4 4.1.2, 4.2.2, 5.3.3, 6.2.2) */
typedef struct { spec_u32 v[8]; } spec_h8;
static const spec_u32 SPEC_SHA256_K[64] = {
  0x428a2f98, 0x71374491, 0xb5c0fbcf, 0xe9b5dba5, 0x3956c25b, 0x59f111f1, 0x923f82a4, 0xab1c5ed5, 0xd807aa98, 0x12835b01, 0x243185be, 0x550c7dc3,
  0x72be5d74, 0x80deb1fe, 0x9bdc06a7, 0xc19bf174, 0xe49b69c1, 0xefbe4786, 0x0fc19dc6, 0x240ca1cc, 0x2de92c6f, 0x4a7484aa, 0x5cb0a9dc, 0x76f988da,
  0x983e5152, 0xa831c66d, 0xb00327c8, 0xbf597fc7, 0xc6e00bf3, 0xd5a79147, 0x06ca6351, 0x14292967, 0x27b70a85, 0x2e1b2138, 0x4d2c6dfc, 0x53380d13,
  0x650a7354, 0x766a0abb, 0x81c2c92e, 0x92722c85, 0xa2bfe8a1, 0xa81a664b, 0xc24b8b70, 0xc76c51a3, 0xd192e819, 0xd6990624, 0xf40e3585, 0x106aa070,
  0x19a4c116, 0x1e376c08, 0x2748774c, 0x34b0bcb5, 0x391c0cb3, 0x4ed8aa4a, 0x5b9cca4f, 0x682e6ff3, 0x748f82ee, 0x78a5636f, 0x84c87814, 0x8cc70208,
  0x90befffa, 0xa4506ceb, 0xbef9a3f7, 0xc67178f2};
static const spec_u32 SPEC_SHA256_H0[8] = {0x6a09e667, 0xbb67ae85, 0x3c6ef372, 0xa54ff53a, 0x510e527f, 0x9b05688c, 0x1f83d9ab, 0x5be0cd19};
#define SPEC_CH(x, y, z) (((x) & (y)) ^ (~(x) & (z)))
#define SPEC_MAJ(x, y, z) (((x) & (y)) ^ ((x) & (z)) ^ ((y) & (z)))
#define SPEC_BSIG0(x) (SPEC_ROTR(x, 2) ^ SPEC_ROTR(x, 13) ^ SPEC_ROTR(x, 22))
#define SPEC_BSIG1(x) (SPEC_ROTR(x, 6) ^ SPEC_ROTR(x, 11) ^ SPEC_ROTR(x, 25))
#define SPEC_SSIG0(x) (SPEC_ROTR(x, 7) ^ SPEC_ROTR(x, 18) ^ ((spec_u32)(x) >> 3))
#define SPEC_SSIG1(x) (SPEC_ROTR(x, 17) ^ SPEC_ROTR(x, 19) ^ ((spec_u32)(x) >> 10))
static inline spec_u32 spec_sha256_sched(spec_u32 w2, spec_u32 w7, spec_u32 w15, spec_u32 w16) { return SPEC_SSIG1(w2) + w7 + SPEC_SSIG0(w15) + w16; }
static inline spec_h8 spec_sha256_round(spec_h8 s, spec_u32 k, spec_u32 w)
{
  spec_u32 a = s.v[0], b = s.v[1], c = s.v[2], d = s.v[3], e = s.v[4], f = s.v[5], g = s.v[6], h = s.v[7];
  spec_u32 t1 = h + SPEC_BSIG1(e) + SPEC_CH(e, f, g) + k + w;
  spec_u32 t2 = SPEC_BSIG0(a) + SPEC_MAJ(a, b, c);
  spec_h8 r = {{t1 + t2, a, b, c, d + t1, e, f, g}};
  return r;
}

static inline spec_h8 spec_h8_of(const spec_u32 *a) { spec_h8 r = {{a[0], a[1], a[2], a[3], a[4], a[5], a[6], a[7]}}; return r; }
static inline int spec_h8_eq(const spec_u32 *a, spec_h8 b)
{
  return a[0] == b.v[0] && a[1] == b.v[1] && a[2] == b.v[2] && a[3] == b.v[3] && a[4] == b.v[4] && a[5] == b.v[5] && a[6] == b.v[6] && a[7] == b.v[7];
}

/* ------------------------------------------------------------------ SHA-1 (FIPS 180-4 4.1.1, 4.2.1, 5.3.1, 6.1.2) */
typedef struct { spec_u32 v[5]; } spec_h5;
static const spec_u32 SPEC_SHA1_H0[5] = {0x67452301, 0xefcdab89, 0x98badcfe, 0x10325476, 0xc3d2e1f0};
static inline spec_u32 spec_sha1_sched(spec_u32 w3, spec_u32 w8, spec_u32 w14, spec_u32 w16) { return SPEC_ROTL(w3 ^ w8 ^ w14 ^ w16, 1); }
static inline spec_u32 spec_sha1_f(int t, spec_u32 x, spec_u32 y, spec_u32 z)
{
  if (t < 20) return (x & y) ^ (~x & z);
  if (t < 40) return x ^ y ^ z;
  if (t < 60) return (x & y) ^ (x & z) ^ (y & z);
  return x ^ y ^ z;
}
static inline spec_u32 spec_sha1_k(int t) { return t < 20 ? 0x5a827999 : t < 40 ? 0x6ed9eba1 : t < 60 ? 0x8f1bbcdc : 0xca62c1d6; }
static inline spec_h5 spec_sha1_round(spec_h5 s, int t, spec_u32 w)
{
  spec_u32 a = s.v[0], b = s.v[1], c = s.v[2], d = s.v[3], e = s.v[4];
  spec_u32 T = SPEC_ROTL(a, 5) + spec_sha1_f(t, b, c, d) + e + spec_sha1_k(t) + w;
  spec_h5 r = {{T, a, SPEC_ROTL(b, 30), c, d}};
  return r;
}

static inline spec_h5 spec_h5_of(const spec_u32 *a) { spec_h5 r = {{a[0], a[1], a[2], a[3], a[4]}}; return r; }
static inline int spec_h5_eq(const spec_u32 *a, spec_h5 b) { return a[0] == b.v[0] && a[1] == b.v[1] && a[2] == b.v[2] && a[3] == b.v[3] && a[4] == b.v[4]; }

/* ------------------------------------------------------------------ MD5 (RFC 1321 3.3, 3.4) */
typedef struct { spec_u32 v[4]; } spec_h4;   /* A, B, C, D */
static const spec_u32 SPEC_MD5_H0[4] = {0x67452301, 0xefcdab89, 0x98badcfe, 0x10325476};
/* T[i] = floor(2^32 * abs(sin(i+1))), RFC 1321 3.4 */
static const spec_u32 SPEC_MD5_T[64] = {
  0xd76aa478, 0xe8c7b756, 0x242070db, 0xc1bdceee, 0xf57c0faf, 0x4787c62a, 0xa8304613, 0xfd469501, 0x698098d8, 0x8b44f7af, 0xffff5bb1, 0x895cd7be,
  0x6b901122, 0xfd987193, 0xa679438e, 0x49b40821, 0xf61e2562, 0xc040b340, 0x265e5a51, 0xe9b6c7aa, 0xd62f105d, 0x02441453, 0xd8a1e681, 0xe7d3fbc8,
  0x21e1cde6, 0xc33707d6, 0xf4d50d87, 0x455a14ed, 0xa9e3e905, 0xfcefa3f8, 0x676f02d9, 0x8d2a4c8a, 0xfffa3942, 0x8771f681, 0x6d9d6122, 0xfde5380c,
  0xa4beea44, 0x4bdecfa9, 0xf6bb4b60, 0xbebfbc70, 0x289b7ec6, 0xeaa127fa, 0xd4ef3085, 0x04881d05, 0xd9d4d039, 0xe6db99e5, 0x1fa27cf8, 0xc4ac5665,
  0xf4292244, 0x432aff97, 0xab9423a7, 0xfc93a039, 0x655b59c3, 0x8f0ccc92, 0xffeff47d, 0x85845dd1, 0x6fa87e4f, 0xfe2ce6e0, 0xa3014314, 0x4e0811a1,
  0xf7537e82, 0xbd3af235, 0x2ad7d2bb, 0xeb86d391};
static const unsigned char SPEC_MD5_S[4][4] = {{7, 12, 17, 22}, {5, 9, 14, 20}, {4, 11, 16, 23}, {6, 10, 15, 21}};
static inline int spec_md5_k(int i) { return i < 16 ? i : i < 32 ? (5 * i + 1) & 15 : i < 48 ? (3 * i + 5) & 15 : (7 * i) & 15; }
static inline spec_u32 spec_md5_f(int i, spec_u32 x, spec_u32 y, spec_u32 z)
{
  if (i < 16) return (x & y) | (~x & z);
  if (i < 32) return (x & z) | (y & ~z);
  if (i < 48) return x ^ y ^ z;
  return y ^ (x | ~z);
}
/* step i (0..63) of RFC 1321 3.4 on the registers in their fixed positions (A,B,C,D): the register updated in step i is
   A for i mod 4 == 0, D for 1, C for 2, B for 3:  a = b + ((a + f(b,c,d) + X[k] + T[i]) <<< s) */
static inline spec_h4 spec_md5_step(spec_h4 r, int i, const spec_u32 *X)
{
  static const unsigned char rot[4][4] = {{0, 1, 2, 3}, {3, 0, 1, 2}, {2, 3, 0, 1}, {1, 2, 3, 0}};
  const unsigned char *p = rot[i & 3];
  spec_u32 a = r.v[p[0]], b = r.v[p[1]], c = r.v[p[2]], d = r.v[p[3]];
  spec_u32 t = a + spec_md5_f(i, b, c, d) + X[spec_md5_k(i)] + SPEC_MD5_T[i];
  r.v[p[0]] = b + SPEC_ROTL(t, SPEC_MD5_S[i >> 4][i & 3]);
  return r;
}

/* ------------------------------------------------------------------ padding (FIPS 180-4 5.1.1, RFC 1321 3.1-3.2)
   The message ends with `r` bytes (r < 64) in its last, incomplete block `tail`; `bitlen` is the message length in bits.
   Padding = 0x80, zeros up to 56 mod 64, then the 64-bit length (big-endian for SHA, little-endian for MD5).
   spec_pad_nblocks: number of final blocks; spec_pad_byte: byte `pos` of final block `blk`. */
static inline int spec_pad_nblocks(spec_u32 r) { return r < 56 ? 1 : 2; }
static inline unsigned char spec_pad_byte_v(unsigned char tail_byte, spec_u32 r, spec_u64 bitlen, int blk, int pos, int big_endian)
{
  int last = spec_pad_nblocks(r) - 1;
  if (blk == 0 && (spec_u32)pos < r)
    return tail_byte;                 /* the message's own byte at this position */
  if (blk == 0 && (spec_u32)pos == r)
    return 0x80;
  if (blk == last && pos >= 56)
    return big_endian ? (unsigned char)(bitlen >> (8 * (63 - pos))) : (unsigned char)(bitlen >> (8 * (pos - 56)));
  return 0;
}
#define spec_pad_byte(tail, r, bitlen, blk, pos, be) spec_pad_byte_v((spec_u32)(pos) < (r) ? (tail)[pos] : 0, r, bitlen, blk, pos, be)
#ifdef WV_CBMC
#pragma CPROVER check pop
#endif
#endif

// Replay of the hand-over interleaving found by the thread-modular obligations (C03/C14/C04):
// a worker looks at its buffer before the I/O thread has filled it, is delayed, and hands the buffer back after it became READY.
// Built with -DWENCRY_VERIF_SCHED: WV_SCHED(1) in buffergroup::require_buffer_entry calls wv_sched(1), which delays the worker once.
// exit 1 = the output file contains the plaintext untransformed (chunk exported without being encrypted); 0 = output is encrypted.
#include "cry.h"
#include <atomic>
#include <chrono>
#include <stdio.h>
#include <string.h>
#include <thread>
#include <unistd.h>
#include <vector>
static std::atomic<int> hits(0), looked(0), io_first(0);
extern "C" void wv_sched(int point)
{
  if (point == 2 && io_first.fetch_add(1) == 0)
  { // the I/O thread's first buffer_update waits until the worker has had its empty look (at most 2 s)
    for (int i = 0; i < 2000 && !looked.load(); ++i)
      std::this_thread::sleep_for(std::chrono::milliseconds(1));
  }
  if (point == 1 && hits.fetch_add(1) == 0)
  { // the worker is delayed between its empty look and its hand-back
    looked.store(1);
    std::this_thread::sleep_for(std::chrono::milliseconds(300));
  }
}
int main()
{
  char dir[] = "/tmp/wvraceXXXXXX"; if (!mkdtemp(dir) || chdir(dir)) return 2;
  const int len = 4096;
  std::vector<unsigned char> plain(len);
  for (int i = 0; i < len; ++i) plain[i] = (unsigned char)(i * 31 + 7);
  { FILE *f = fopen("plain", "wb"); fwrite(plain.data(), 1, len, f); fclose(f); }
  unsigned char key[16]; for (int i = 0; i < 16; ++i) key[i] = 0x10 + i;
  unsigned char seed[16] = "race-seed";
  { FILE *fin = fopen("plain", "rb"), *fout = fopen("cipher", "wb+"); Settings s(1, 0, true); runcrypt r(fin, fout, key, s, 1); r.execute_encrypt(len, seed); }
  std::vector<unsigned char> c(len + 200);
  FILE *f = fopen("cipher", "rb"); size_t n = fread(c.data(), 1, c.size(), f); fclose(f);
  unlink("plain"); unlink("cipher"); rmdir(dir);
  size_t expected = 48 + 20 + 16 * (len / 16 + 1);
  bool untransformed = n >= 68 + (size_t)len && memcmp(c.data() + 68, plain.data(), len) == 0;
  bool dropped = n != expected;
  printf("\nRESULT cipherlen=%zu expected_cipherlen=%zu body_equals_plaintext=%d\n", n, expected, untransformed);
  if (untransformed || dropped)
    printf("FAILING SCHEDULE: worker 0 finds its buffer empty and is delayed before set_update; the I/O thread loads the chunk and marks it READY; "
           "the worker's set_update then hands the untouched chunk back; the I/O thread exports it with now == 0 blocks consumed: "
           "%s\n", dropped ? "the chunk is dropped from the output (encryption still reports success)" : "the output body is the plaintext");
  return (untransformed || dropped) ? 1 : 0;
}

/* full digests assembled from hash_spec.h (native use only: self-test and replay oracles) */
#ifndef HASH_SPEC_DIGEST_H
#define HASH_SPEC_DIGEST_H
#include <string.h>
#include "hash_spec.h"
static void spec_sha256_digest(const unsigned char *m, size_t n, unsigned char *out)
{
  spec_u32 h[8]; memcpy(h, SPEC_SHA256_H0, sizeof h);
  size_t full = n / 64; spec_u32 r = n % 64; int nb = spec_pad_nblocks(r);
  for (size_t b = 0; b < full + nb; ++b)
  {
    unsigned char blk[64];
    if (b < full) memcpy(blk, m + 64 * b, 64);
    else for (int p = 0; p < 64; ++p) blk[p] = spec_pad_byte(m + 64 * full, r, (spec_u64)n * 8, (int)(b - full), p, 1);
    spec_u32 w[64];
    for (int i = 0; i < 16; ++i) w[i] = SPEC_BE32(blk + 4 * i);
    for (int i = 16; i < 64; ++i) w[i] = spec_sha256_sched(w[i - 2], w[i - 7], w[i - 15], w[i - 16]);
    spec_h8 s; memcpy(s.v, h, sizeof h);
    for (int i = 0; i < 64; ++i) s = spec_sha256_round(s, SPEC_SHA256_K[i], w[i]);
    for (int i = 0; i < 8; ++i) h[i] += s.v[i];
  }
  for (int i = 0; i < 32; ++i) out[i] = (unsigned char)(h[i >> 2] >> (8 * (3 - (i & 3))));
}
static void spec_sha1_digest(const unsigned char *m, size_t n, unsigned char *out)
{
  spec_u32 h[5]; memcpy(h, SPEC_SHA1_H0, sizeof h);
  size_t full = n / 64; spec_u32 r = n % 64; int nb = spec_pad_nblocks(r);
  for (size_t b = 0; b < full + nb; ++b)
  {
    unsigned char blk[64];
    if (b < full) memcpy(blk, m + 64 * b, 64);
    else for (int p = 0; p < 64; ++p) blk[p] = spec_pad_byte(m + 64 * full, r, (spec_u64)n * 8, (int)(b - full), p, 1);
    spec_u32 w[80];
    for (int i = 0; i < 16; ++i) w[i] = SPEC_BE32(blk + 4 * i);
    for (int i = 16; i < 80; ++i) w[i] = spec_sha1_sched(w[i - 3], w[i - 8], w[i - 14], w[i - 16]);
    spec_h5 s; memcpy(s.v, h, sizeof h);
    for (int i = 0; i < 80; ++i) s = spec_sha1_round(s, i, w[i]);
    for (int i = 0; i < 5; ++i) h[i] += s.v[i];
  }
  for (int i = 0; i < 20; ++i) out[i] = (unsigned char)(h[i >> 2] >> (8 * (3 - (i & 3))));
}
static void spec_md5_digest(const unsigned char *m, size_t n, unsigned char *out)
{
  spec_u32 h[4]; memcpy(h, SPEC_MD5_H0, sizeof h);
  size_t full = n / 64; spec_u32 r = n % 64; int nb = spec_pad_nblocks(r);
  for (size_t b = 0; b < full + nb; ++b)
  {
    unsigned char blk[64];
    if (b < full) memcpy(blk, m + 64 * b, 64);
    else for (int p = 0; p < 64; ++p) blk[p] = spec_pad_byte(m + 64 * full, r, (spec_u64)n * 8, (int)(b - full), p, 0);
    spec_u32 X[16];
    for (int i = 0; i < 16; ++i) X[i] = SPEC_LE32(blk + 4 * i);
    spec_h4 s; memcpy(s.v, h, sizeof h);
    for (int i = 0; i < 64; ++i) s = spec_md5_step(s, i, X);
    for (int i = 0; i < 4; ++i) h[i] += s.v[i];
  }
  for (int i = 0; i < 16; ++i) out[i] = (unsigned char)(h[i >> 2] >> (8 * (i & 3)));
}
#endif

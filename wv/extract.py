#!/usr/bin/env python3
"""Mechanical C++ -> C extraction of /repo translation units (DESIGN.md section 2.2).

Every function body is regenerated from the repository's preprocessed source text: a node's output is the
text of its source range with each child's range replaced by the child's output; only the node kinds with a
g_<Kind> handler below produce anything other than their own text.  A node kind that has neither a handler nor
an entry in PLAIN aborts the extraction of that function (ExtractionBreak -> exit 2 in the driver if a check
needs the function)."""
import hashlib, json, os, re, sys
from astload import TU, ExtractionBreak

PLAIN = {  # node kinds whose C++ source text (with children substituted) is valid C with the same meaning
    'CompoundStmt', 'DeclStmt', 'VarDecl', 'ForStmt', 'WhileStmt', 'DoStmt', 'IfStmt', 'ReturnStmt', 'BreakStmt',
    'ContinueStmt', 'SwitchStmt', 'CaseStmt', 'DefaultStmt', 'NullStmt', 'BinaryOperator', 'UnaryOperator',
    'CompoundAssignOperator', 'ConditionalOperator', 'ArraySubscriptExpr', 'ParenExpr', 'CStyleCastExpr',
    'IntegerLiteral', 'CharacterLiteral', 'StringLiteral', 'FloatingLiteral', 'CallExpr',
    'UnaryExprOrTypeTraitExpr', 'InitListExpr', 'ConstantExpr', 'DeclRefExpr', 'ImplicitValueInitExpr',
}
SYNC_TYPES = ('std::mutex', 'std::unique_lock', 'std::lock_guard', 'std::condition_variable', 'std::thread')
PRINT_FAMILY = ('AbsResultPrint', 'NullResPrint', 'ResultPrint', 'Timer')
PURE_OK = {'get_size', 'getctype', 'gethtype', 'get_ctype', 'get_htype', 'get_no_echo', 'get_cname', 'get_hname',
           'check_ctype', 'check_htype'}
TYPE_MAP = {'std::mutex': 'wv_mutex', 'std::condition_variable': 'wv_cv', 'std::thread': 'wv_thread'}
LIBC_RENAME = ['fread', 'fwrite', 'fseek', 'feof', 'fgetc', 'ungetc', 'fclose', 'fopen', 'fflush', 'getopt_long',
               'atoi', 'sprintf', 'snprintf', 'rand', 'srand', 'time']


def is_std(t):
    return 'std::' in t or 'reference_wrapper' in t or '(lambda' in t or '_Bind' in t or '_Placeholder' in t


def is_print(t):
    return any(re.search(r'\b%s\b' % p, t) for p in PRINT_FAMILY)


def is_sync(t):
    return any(s in t for s in SYNC_TYPES)


def is_stdfunc(t):
    return 'std::function' in t


class Extractor:
    def __init__(self, tu):
        self.tu = tu
        self.records = {}      # qname -> info
        self.rec_by_id = {}
        self.enums = []        # (qname, node)
        self.enum_by_id = {}
        self.typedefs = []
        self.globals = []      # VarDecl nodes at namespace scope (incl. out-of-line static members)
        self.funcs = []
        self.helpers = {}      # generated allocation helpers: name -> text
        self.drops = []        # dropped statements (R8/R11/R14)
        self.rules = {}
        self._collect(tu.ast, [])

    def fire(self, r):
        self.rules[r] = self.rules.get(r, 0) + 1

    # ------------------------------------------------------------------ collection
    def _collect(self, n, ctx):
        k = n.get('kind')
        if k == 'CXXRecordDecl' and n.get('completeDefinition') and n.get('name'):
            q = '__'.join(ctx + [n['name']])
            info = {'node': n, 'qname': q, 'name': n['name'], 'fields': [], 'methods': [], 'statics': [],
                    'bases': [b['type']['qualType'] for b in n.get('bases', [])],
                    'tagUsed': n.get('tagUsed', 'struct')}
            if len(info['bases']) > 1:
                raise ExtractionBreak('multiple inheritance in ' + q)
            self.records[q] = info
            self.rec_by_id[n['id']] = info
            for c in n.get('inner', []):
                if not c:
                    continue
                ck = c.get('kind')
                if ck == 'FieldDecl':
                    info['fields'].append(c)
                elif ck == 'CXXRecordDecl' and not c.get('name') and c.get('completeDefinition') \
                        and not c.get('definitionData', {}).get('isLambda'):
                    info['fields'].append(c)
                elif ck in ('CXXMethodDecl', 'CXXConstructorDecl', 'CXXDestructorDecl'):
                    if not c.get('isImplicit'):
                        info['methods'].append(c)
                elif ck == 'VarDecl':
                    info['statics'].append(c)
            for c in n.get('inner', []):
                if c:
                    self._collect(c, ctx + [n['name']])
            return
        if k == 'EnumDecl' and n.get('name'):
            q = '__'.join(ctx + [n['name']])
            self.enums.append((q, n))
            self.enum_by_id[n['id']] = q
            return
        if k == 'TypedefDecl' and not ctx and not n.get('isImplicit'):
            self.typedefs.append(n)
        if k == 'VarDecl' and not ctx and self.tu.parent.get(n['id'], {}).get('kind') == 'TranslationUnitDecl':
            self.globals.append(n)
        if k in ('FunctionDecl', 'CXXMethodDecl', 'CXXConstructorDecl', 'CXXDestructorDecl') and not n.get('isImplicit') \
                and any(c and c.get('kind') == 'CompoundStmt' for c in n.get('inner', [])) \
                and not (self.tu.parent.get(n['id'], {}).get('definitionData', {}).get('isLambda') or n.get('name') == 'operator()'):
            # (the call operator of a lambda's closure class is not a function of the program: the function that contains the
            #  lambda is reported as an extraction break where the lambda is used)
            self.funcs.append(n)
        for c in n.get('inner', []):
            if c:
                self._collect(c, ctx)

    # ------------------------------------------------------------------ naming
    def canon(self, m):
        while m.get('previousDecl') and m['previousDecl'] in self.tu.byid:
            m = self.tu.byid[m['previousDecl']]
        return m

    def rec_of_method(self, m):
        m = self.canon(m)
        pid = m.get('parentDeclContextId')
        if pid and pid in self.rec_by_id:
            return self.rec_by_id[pid]
        p = self.tu.parent.get(m['id'])
        if p is not None and p.get('id') in self.rec_by_id:
            return self.rec_by_id[p['id']]
        return None

    def ptypes(self, f):
        return [p['type']['qualType'] for p in f.get('inner', []) if p and p.get('kind') == 'ParmVarDecl']

    def mangled(self, m):
        rec = self.rec_of_method(m) if m['kind'] != 'FunctionDecl' else None
        if rec is None:
            return m['name']
        cm = self.canon(m)
        if m['kind'] == 'CXXConstructorDecl':
            same = [x for x in rec['methods'] if x['kind'] == 'CXXConstructorDecl']
            base = rec['qname'] + '__ctor'
        elif m['kind'] == 'CXXDestructorDecl':
            return rec['qname'] + '__dtor'
        else:
            same = [x for x in rec['methods'] if x.get('name') == m['name'] and x['kind'] == 'CXXMethodDecl']
            base = rec['qname'] + '__' + m['name']
        if len(same) > 1:
            base += '_%d' % ([x['id'] for x in same].index(cm['id']) + 1)
        return base

    def find_record(self, tname):
        t = tname.replace('const ', '').replace('class ', '').replace('struct ', '').strip().replace('::', '__')
        if t in self.records:
            return self.records[t]
        c = [q for q in self.records if q.endswith('__' + t)]
        return self.records[c[0]] if len(c) == 1 else None

    def base_rec(self, rec):
        return self.find_record(rec['bases'][0]) if rec['bases'] else None

    def is_polymorphic(self, rec):
        r = rec
        while r:
            if any(m.get('virtual') for m in r['methods']):
                return True
            r = self.base_rec(r)
        return False

    def poly_root_depth(self, rec):
        """number of _base hops from rec to the topmost polymorphic ancestor (which carries _wv_tag)"""
        chain = []
        r = rec
        while r:
            chain.append(r)
            r = self.base_rec(r)
        top = max(i for i, r in enumerate(chain) if any(m.get('virtual') for m in r['methods']))
        return top

    def has_subclass(self, rec):
        return any(self.base_rec(r) is rec for r in self.records.values())

    def skipped_function(self, f):
        """functions that are not extracted: print family, std:: in the signature (except std::function parameters)"""
        rec = self.rec_of_method(f) if f['kind'] != 'FunctionDecl' else None
        if rec and rec['name'] in PRINT_FAMILY:
            return 'print family'
        qt = f['type']['qualType']
        rt = qt.split('(')[0]
        if is_std(rt) or is_print(rt):
            return 'returns ' + rt.strip()
        for p in self.ptypes(f):
            if is_stdfunc(p):
                continue
            if is_std(p) or is_print(p):
                return 'parameter ' + p
        return None

    # ------------------------------------------------------------------ types
    def map_type(self, qt):
        """clang qualType -> (C prefix, C suffix)"""
        qt = qt.strip()
        m = re.match(r'^(.*?)((\s*\[\d*\])+)$', qt)
        suf = ''
        if m:
            qt, suf = m.group(1).strip(), m.group(2).replace(' ', '')
        for k, v in TYPE_MAP.items():
            qt = qt.replace(k, v)
        if is_std(qt):
            raise ExtractionBreak('std type in extracted declaration: ' + qt)
        qt = qt.replace('class ', '').replace('&', '*')
        qt = re.sub(r'\b(\w+)::(\w+)', r'\1__\2', qt)
        qt = re.sub(r'\bstruct (\w+)', r'\1', qt)

        def resolve(m):
            w = m.group(0)
            if w in self.records or w in ('const', 'unsigned', 'enum', 'union'):
                return w
            c = [q for q in self.records if q.endswith('__' + w)] + [q for q, _ in self.enums if q.endswith('__' + w)]
            return c[0] if len(c) == 1 else w
        qt = re.sub(r'[A-Za-z_]\w*', resolve, qt)
        return qt, suf

    def decl(self, qt, name):
        pre, suf = self.map_type(qt)
        return '%s %s%s' % (pre, name, suf)

    def static_const_names(self, rec):
        out = {}
        r = rec
        while r:
            for v in r['statics']:
                out.setdefault(v['name'], r['qname'] + '__' + v['name'])
            r = self.base_rec(r)
        return out

    def emit_record(self, info):
        q = info['qname']
        kw = 'union' if info['tagUsed'] == 'union' else 'struct'
        out = ['%s %s {' % (kw, q)]
        if info['bases']:
            out.append('  %s;' % self.decl(info['bases'][0], '_base'))
        elif self.is_polymorphic(info):
            out.append('  int _wv_tag;')
        sc = self.static_const_names(info)
        for f in info['fields']:
            if f['kind'] == 'FieldDecl':
                if not f.get('name'):
                    continue
                qt = f['type']['qualType']
                if is_print(qt) or (is_std(qt) and not is_sync(qt)):
                    self.drops.append({'what': 'field', 'where': q + '::' + f['name'], 'type': qt})
                    continue
                pre, suf = self.map_type(qt)
                if pre.startswith('const ') and '*' not in pre:
                    pre = pre[6:]       # a const member is initialised by assignment in the translated constructor
                if suf:
                    # keep symbolic array bounds from the source text (R9)
                    a, b = self.tu.rng(f)
                    txt = self.tu.bsrc[a:b].decode()
                    m = re.search(r'\b%s\s*((\[[^\]]*\]\s*)+)' % re.escape(f['name']), txt)
                    if m:
                        suf = re.sub(r'\b([A-Za-z_]\w*)\b', lambda mm: sc.get(mm.group(1), mm.group(1)), m.group(1).strip())
                out.append('  %s %s%s;' % (pre, f['name'], suf))
            else:
                a, b = self.tu.rng(f)
                out.append('  ' + self.tu.bsrc[a:b].decode() + ';')
        if len(out) == 1:
            out.append('  char _wv_empty;')
        out.append('};')
        defs = []
        for v in info['statics']:
            init = [c for c in v.get('inner', []) if c]
            qt = v['type']['qualType']
            if init and qt.startswith('const') and '[' not in qt:
                a, b = self.tu.rng(init[0])
                pre, _ = self.map_type(qt.replace('const ', ''))
                name = q + '__' + v['name']
                defs.append('#ifndef %s\n#define %s ((%s)(%s))\n#endif' % (name, name, pre, self.tu.bsrc[a:b].decode()))
        return '\n'.join(defs + out)

    # ------------------------------------------------------------------ generic regeneration
    def gen(self, n):
        k = n.get('kind')
        h = getattr(self, 'g_' + k, None)
        if h:
            r = h(n)
            if r is not None:
                return r
        elif k not in PLAIN:
            raise ExtractionBreak('no rule for AST node kind %s at %s' % (k, self.loc(n)))
        return self.default(n)

    def loc(self, n):
        r = self.tu.rng(n)
        if not r:
            return '?'
        f, l = self.tu.where(r[0])
        return '%s:%d' % (os.path.relpath(f, self.tu.repo) if f.startswith(self.tu.repo) else f, l)

    def text(self, a, b):
        """source text of [a,b) with the annotation markers that fall inside re-inserted as C"""
        out = []
        pos = a
        for (ms, me, kind, text) in self.tu.markers:
            if ms >= pos and me <= b:
                out.append(self.tu.bsrc[pos:ms].decode())
                out.append(render_marker(kind, text))
                pos = me
                self.tu.emitted.add(ms)
        out.append(self.tu.bsrc[pos:b].decode())
        return ''.join(out)

    def default(self, n):
        r = self.tu.rng(n)
        if r is None:
            raise ExtractionBreak('no source range for %s' % n.get('kind'))
        a, b = r
        kids = []

        def add(c):
            cr = self.tu.rng(c)
            if cr is None or cr[0] == cr[1]:
                return
            kids.append((cr, c))
        if n.get('kind') == 'DeclStmt':
            vds = [c for c in n.get('inner', []) if c]
            for c in vds:
                if c.get('kind') != 'VarDecl':
                    raise ExtractionBreak('DeclStmt child %s at %s' % (c.get('kind'), self.loc(n)))
                qt = c['type']['qualType']
                if qt.rstrip().endswith('&'):
                    raise ExtractionBreak('local reference variable at ' + self.loc(n))
                for cc in c.get('inner', []):
                    if cc:
                        add(cc)
            txt = self.tu.bsrc[a:b].decode()
            head = txt.split('=')[0]
            if '::' in head or re.search(r'\bauto\b', head):
                raise ExtractionBreak('C++-only declaration syntax at %s: %s' % (self.loc(n), head.strip()))
        else:
            for c in n.get('inner', []):
                if c:
                    add(c)
        kids.sort(key=lambda x: x[0])
        out = []
        pos = a
        for (ca, cb), c in kids:
            if ca < pos or cb > b:
                raise ExtractionBreak('overlapping child %s in %s at %s' % (c.get('kind'), n.get('kind'), self.loc(n)))
            out.append(self.text(pos, ca))
            out.append(self.gen(c))
            pos = cb
        out.append(self.text(pos, b))
        return ''.join(out)

    # ------------------------------------------------------------------ helpers on expressions
    def strip_casts(self, n):
        while n.get('kind') in ('ImplicitCastExpr', 'ExprWithCleanups', 'MaterializeTemporaryExpr', 'CXXBindTemporaryExpr',
                                'ConstantExpr') and n.get('inner'):
            n = n['inner'][0]
        return n

    def base_path(self, n):
        depth = 0
        while n.get('kind') == 'ImplicitCastExpr':
            if n.get('castKind') in ('UncheckedDerivedToBase', 'DerivedToBase'):
                depth += len(n.get('path', [])) or 1
            n = n['inner'][0]
        return depth, n

    def subtree(self, n):
        yield n
        for c in n.get('inner', []):
            if c:
                yield from self.subtree(c)

    def node_types(self, n):
        t = n.get('type', {})
        return (t.get('qualType', '') + ' ' + t.get('desugaredQualType', ''))

    # ------------------------------------------------------------------ statement dropping (R8, R11)
    def kept_callee(self, x):
        """the repo function/constructor a call node resolves to, if that function is extracted"""
        k = x.get('kind')
        fn = None
        if k == 'CXXMemberCallExpr':
            me = x['inner'][0]
            fn = self.tu.byid.get(me.get('referencedMemberDecl'))
        elif k == 'CallExpr':
            cal = self.strip_casts(x['inner'][0])
            if cal.get('kind') == 'DeclRefExpr':
                fn = self.tu.byid.get(cal.get('referencedDecl', {}).get('id'))
        elif k == 'CXXConstructExpr':
            rec = self.find_record(x.get('type', {}).get('qualType', '').split('[')[0])
            if rec and rec['name'] not in PRINT_FAMILY:
                return rec
            return None
        if fn is not None and self.in_repo_decl(fn) and not self.skipped_function(fn):
            rec = self.rec_of_method(fn) if fn['kind'] != 'FunctionDecl' else None
            if rec and rec['name'] in PRINT_FAMILY:
                return None
            return fn
        return None

    def tainted(self, n, top=True):
        """does the subtree compute with std:: / print-family values?  Arguments bound to std::function parameters of
        extracted functions are ignored: R8 removes them."""
        t = self.node_types(n)
        if is_print(t) or (is_std(t) and not is_sync(t)):
            return True
        kc = self.kept_callee(n)
        kids = [c for c in n.get('inner', []) if c]
        for i, c in enumerate(kids):
            if kc is not None and is_stdfunc(self.node_types(c)) and not (n.get('kind') != 'CXXConstructExpr' and i == 0):
                continue
            if kc is not None and n.get('kind') != 'CXXConstructExpr' and i == 0:
                # the callee expression: its object part may still be tainted
                if c.get('kind') == 'MemberExpr':
                    if any(self.tainted(cc, False) for cc in c.get('inner', []) if cc):
                        return True
                continue
            if self.tainted(c, False):
                return True
        return False

    def check_droppable(self, n):
        """a dropped statement may not change program state that the properties talk about"""
        for x in self.subtree(n):
            k = x.get('kind')
            if k in ('CallExpr', 'CXXMemberCallExpr'):
                cal = self.strip_casts(x['inner'][0])
                fn = None
                if cal.get('kind') == 'DeclRefExpr':
                    fn = self.tu.byid.get(cal.get('referencedDecl', {}).get('id'))
                elif cal.get('kind') == 'MemberExpr':
                    fn = self.tu.byid.get(cal.get('referencedMemberDecl'))
                if fn is not None and fn.get('kind') in ('FunctionDecl', 'CXXMethodDecl') and self.in_repo_decl(fn):
                    if self.skipped_function(fn) or fn.get('name') in PURE_OK:
                        continue
                    raise ExtractionBreak('statement to be dropped calls %s at %s' % (fn.get('name'), self.loc(n)))
            if (k == 'BinaryOperator' and x.get('opcode') == '=') or k == 'CompoundAssignOperator' or \
                    (k == 'UnaryOperator' and x.get('opcode') in ('++', '--')):
                lhs = x['inner'][0]
                lt = self.node_types(lhs)
                if is_print(lt) or is_std(lt):
                    continue
                base = self.strip_casts(lhs)
                # assignments to locals declared inside the dropped statement cannot occur (one statement)
                raise ExtractionBreak('statement to be dropped assigns program state at ' + self.loc(n))

    def in_repo_decl(self, d):
        r = self.tu.rng(d)
        return bool(r) and self.tu.in_repo(r[0])

    def drop_stmt(self, n, why):
        self.check_droppable(n)
        a, b = self.tu.rng(n)
        self.drops.append({'what': 'statement', 'where': self.loc(n), 'why': why,
                           'text': ' '.join(self.tu.bsrc[a:b].decode().split())[:160]})
        self.fire('R11-drop')
        for (ms, me, kind, text) in self.tu.markers:
            if a <= ms and me <= b:
                raise ExtractionBreak('annotation inside a dropped statement at ' + self.loc(n))
        return '/* wv: dropped */' if n.get('kind') == 'DeclStmt' else '(void)0 /* wv: dropped */'

    def keep_call(self, n):
        """a call to an extracted repo function is never dropped as a whole"""
        x = self.strip_casts(n)
        if x.get('kind') == 'CXXMemberCallExpr':
            me = x['inner'][0]
            fn = self.tu.byid.get(me.get('referencedMemberDecl'))
            if fn is not None and self.in_repo_decl(fn) and not self.skipped_function(fn):
                return True
            # sync primitives
            ot = self.node_types(me['inner'][0]) if me.get('inner') else ''
            if is_sync(ot):
                return True
        if x.get('kind') == 'CallExpr':
            cal = self.strip_casts(x['inner'][0])
            if cal.get('kind') == 'DeclRefExpr':
                fn = self.tu.byid.get(cal.get('referencedDecl', {}).get('id'))
                if fn is not None and self.in_repo_decl(fn) and not self.skipped_function(fn):
                    return True
        if x.get('kind') == 'CXXOperatorCallExpr' and 'std::thread' in self.node_types(x):
            return True
        return False

    def stmt(self, n):
        """regenerate one statement (child of a compound statement or a controlled sub-statement)"""
        k = n.get('kind')
        if k in ('CompoundStmt', 'IfStmt', 'ForStmt', 'WhileStmt', 'DoStmt', 'SwitchStmt', 'CaseStmt', 'DefaultStmt',
                 'BreakStmt', 'ContinueStmt', 'NullStmt', 'CXXTryStmt'):
            return self.gen(n)
        if k == 'ReturnStmt':
            return self.gen(n)
        if k == 'DeclStmt':
            vds = [c for c in n.get('inner', []) if c]
            if len(vds) == 1 and vds[0].get('kind') == 'VarDecl':
                qt = self.node_types(vds[0])
                if is_sync(qt):
                    return self.gen_lock_decl(n, vds[0])
                if is_print(qt) or is_std(qt):
                    return self.drop_stmt(n, 'declaration of ' + vds[0]['type']['qualType'])
            if self.tainted(n):
                raise ExtractionBreak('std-typed expression inside a kept declaration at ' + self.loc(n))
            return self.gen(n)
        # expression statement
        if self.keep_call(n):
            return self.gen(n)
        if self.tainted(n):
            return self.drop_stmt(n, 'console output / progress reporting')
        return self.gen(n)

    # ------------------------------------------------------------------ node handlers
    def g_CompoundStmt(self, n):
        a, b = self.tu.rng(n)
        out = []
        pos = a
        self.scope_unlocks.append([])
        for c in n.get('inner', []):
            if not c:
                continue
            ca, cb = self.tu.rng(c)
            out.append(self.text(pos, ca))
            out.append(self.stmt(c))
            pos = cb
        tail = self.text(pos, b)
        unl = self.scope_unlocks.pop()
        if unl:
            inner = [c for c in n.get('inner', []) if c]
            # a scope guard is released at the closing brace; refuse early exits we do not model
            seen = False
            for c in inner:
                if seen:
                    # (node, in_loop, in_switch): a break / continue whose target loop (or switch, for break) lies inside this scope
                    # does not leave the scope; return and goto always count
                    stack = [(c, False, False)]
                    while stack:
                        x, in_loop, in_switch = stack.pop()
                        if not x or x.get('kind') == 'LambdaExpr':     # a return inside a lambda leaves the lambda, not this scope
                            continue
                        k = x.get('kind')
                        if k in ('ReturnStmt', 'GotoStmt') or (k == 'ContinueStmt' and not in_loop) or \
                           (k == 'BreakStmt' and not (in_loop or in_switch)):
                            raise ExtractionBreak('early exit from a lock scope at ' + self.loc(c))
                        if k in ('ForStmt', 'WhileStmt', 'DoStmt', 'CXXForRangeStmt'):
                            in_loop = True
                        if k == 'SwitchStmt':
                            in_switch = True
                        stack.extend((y, in_loop, in_switch) for y in x.get('inner', []))
                if c.get('kind') == 'DeclStmt' and any(is_sync(self.node_types(v)) for v in c.get('inner', []) if v):
                    seen = True
            i = tail.rfind('}')
            tail = tail[:i] + ' '.join(unl) + ' ' + tail[i:]
        out.append(tail)
        return ''.join(out)

    def ctl_body(self, n, idxs):
        """If/For/While/Do: sub-statements go through stmt() so that a dropped one leaves ';'"""
        a, b = self.tu.rng(n)
        kids = [(self.tu.rng(c), i, c) for i, c in enumerate(n.get('inner', [])) if c and self.tu.rng(c)]
        out = []
        pos = a
        for (ca, cb), i, c in kids:
            out.append(self.text(pos, ca))
            if i in idxs:
                out.append(self.stmt(c))
            else:
                out.append(self.gen(c))
            pos = cb
        out.append(self.text(pos, b))
        return ''.join(out)

    def g_IfStmt(self, n):
        inner = n.get('inner', [])
        # children: [init?] cond then [else]; the statement children are the last 1 or 2
        has_else = n.get('hasElse', False)
        idx = {len(inner) - 1} | ({len(inner) - 2} if has_else else set())
        if n.get('hasInit') or n.get('hasVar'):
            raise ExtractionBreak('if with init/var at ' + self.loc(n))
        return self.ctl_body(n, idx)

    def g_ForStmt(self, n):
        return self.ctl_body(n, {len(n['inner']) - 1})

    def g_WhileStmt(self, n):
        return self.ctl_body(n, {len(n['inner']) - 1})

    def g_DoStmt(self, n):
        return self.ctl_body(n, {0})

    def g_CaseStmt(self, n):
        return self.ctl_body(n, {len(n['inner']) - 1})

    def g_DefaultStmt(self, n):
        return self.ctl_body(n, {len(n['inner']) - 1})

    def g_CXXTryStmt(self, n):
        # R14: the handlers of the only try block in the repository print and fall through
        body = n['inner'][0]
        for h in n['inner'][1:]:
            for c in h.get('inner', []):
                if c and c.get('kind') == 'CompoundStmt':
                    for s in c.get('inner', []):
                        if s:
                            self.check_droppable(s)
            a, b = self.tu.rng(h)
            self.drops.append({'what': 'exception handler', 'where': self.loc(h),
                               'text': ' '.join(self.tu.bsrc[a:b].decode().split())[:160]})
        self.fire('R14-try')
        return self.gen(body)

    def g_ReturnStmt(self, n):
        kids = [c for c in n.get('inner', []) if c]
        if self.cur_ret_ref and kids:
            self.fire('R4-retref')
            return 'return &(%s)' % self.gen(kids[0])
        return None

    def g_CXXThisExpr(self, n):
        return 'this'

    def g_GNUNullExpr(self, n):
        return 'NULL'

    def g_CXXNullPtrLiteralExpr(self, n):
        return 'NULL'

    def g_CXXBoolLiteralExpr(self, n):
        return '1' if n.get('value') else '0'

    def g_ImplicitCastExpr(self, n):
        ck = n.get('castKind')
        if ck in ('DerivedToBase', 'UncheckedDerivedToBase'):
            t = n['type']['qualType']
            inner = self.gen(n['inner'][0])
            if t.rstrip().endswith('*'):
                pre, _ = self.map_type(t)
                self.fire('R2-basecast')
                return '((%s)(%s))' % (pre, inner)
            # object (lvalue) derived-to-base outside a member access
            hops = len(n.get('path', [])) or 1
            return '(%s)%s' % (inner, '._base' * hops)
        return self.gen(n['inner'][0])

    def g_ExprWithCleanups(self, n):
        return self.gen(n['inner'][0])

    def g_MaterializeTemporaryExpr(self, n):
        return self.gen(n['inner'][0])

    def g_CXXBindTemporaryExpr(self, n):
        return self.gen(n['inner'][0])

    def g_CXXFunctionalCastExpr(self, n):
        t = n['type']['qualType']
        if is_std(t):
            raise ExtractionBreak('functional cast to ' + t)
        pre, _ = self.map_type(t)
        return '((%s)(%s))' % (pre, self.gen(n['inner'][0]))

    def g_CXXStaticCastExpr(self, n):
        pre, _ = self.map_type(n['type']['qualType'])
        self.fire('R10-cast')
        return '((%s)(%s))' % (pre, self.gen(n['inner'][0]))

    def g_CStyleCastExpr(self, n):
        t = n['type']['qualType']
        if '::' in t:
            pre, _ = self.map_type(t)
            return '((%s)(%s))' % (pre, self.gen(n['inner'][0]))
        return None

    def g_MemberExpr(self, n):
        inner = n['inner'][0]
        depth, base = self.base_path(inner)
        name = n.get('name', '')
        path = '_base.' * depth
        if base.get('kind') == 'CXXThisExpr':
            self.fire('R2-this')
            if not name:
                return 'this->' + path.rstrip('.') if path else '(*this)'
            return 'this->' + path + name
        if not name:
            # anonymous struct/union hop: elide
            return self.gen(inner)
        d2, hb = depth, base
        arrow = n.get('isArrow')
        while hb.get('kind') == 'MemberExpr' and not hb.get('name'):
            arrow = hb.get('isArrow')
            d3, hb = self.base_path(hb['inner'][0])
            d2 += d3
        if hb.get('kind') == 'CXXThisExpr':
            return 'this->' + '_base.' * d2 + name
        op = '->' if arrow else '.'
        if d2 and arrow:
            # the derived-to-base cast was on a pointer
            return '(%s)->%s%s' % (self.gen(hb), '_base.' * d2, name)
        return '%s%s%s%s' % (self.gen(hb), op, '_base.' * d2, name)

    def is_ref_decl(self, rd):
        return rd.get('kind') == 'ParmVarDecl' and rd.get('type', {}).get('qualType', '').rstrip().endswith('&')

    def g_DeclRefExpr(self, n):
        rd = n.get('referencedDecl', {})
        if self.is_ref_decl(rd):
            self.fire('R4-ref')
            return '(*%s)' % rd['name']
        if rd.get('kind') == 'EnumConstantDecl':
            if 'cv_status' in (rd.get('type', {}).get('qualType', '') + n.get('type', {}).get('qualType', '')):
                # std::cv_status { no_timeout, timeout } as the integers the timed waits of R12c yield
                return {'no_timeout': '0 /* std::cv_status::no_timeout */', 'timeout': '1 /* std::cv_status::timeout */'}[rd['name']]
            return rd['name']
        if rd.get('kind') == 'VarDecl':
            d = self.tu.byid.get(rd['id'])
            if d is not None:
                d0 = self.canon(d)
                pid = d0.get('parentDeclContextId') or (self.tu.parent.get(d0['id']) or {}).get('id')
                if pid in self.rec_by_id:
                    self.fire('R9-static')
                    return self.rec_by_id[pid]['qname'] + '__' + rd['name']
            return rd['name']
        if rd.get('kind') in ('FunctionDecl', 'CXXMethodDecl'):
            d = self.tu.byid.get(rd['id'])
            if d is not None and d.get('kind') == 'CXXMethodDecl':
                return self.mangled(d)
            return rd['name']
        return None

    def default_arg(self, callee, i):
        ps = [p for p in self.canon(callee).get('inner', []) if p and p.get('kind') == 'ParmVarDecl']
        if i < len(ps):
            init = [c for c in ps[i].get('inner', []) if c]
            if init:
                return self.gen(init[0])
        raise ExtractionBreak('default argument %d of %s not found' % (i, callee.get('name')))

    def gen_args(self, callee, args):
        pt = self.ptypes(callee)
        out = []
        for i, a in enumerate(args):
            if i < len(pt) and is_stdfunc(pt[i]):
                self.fire('R8-arg')
                continue
            if a.get('kind') == 'CXXDefaultArgExpr':
                self.fire('R10-defarg')
                t = self.default_arg(callee, i)
            else:
                t = self.gen(a)
            if i < len(pt) and pt[i].rstrip().endswith('&'):
                t = '&(%s)' % t
            out.append(t)
        return out

    def g_CallExpr(self, n):
        callee = self.strip_casts(n['inner'][0])
        args = n['inner'][1:]
        if callee.get('kind') == 'DeclRefExpr':
            rd = callee['referencedDecl']
            if rd.get('name') == 'file_size' and 'filesystem' in self.text(*self.tu.rng(callee)):
                self.fire('R14-filesize')
                return 'wv_file_size(%s)' % self.gen(self.strip_casts(args[0]).get('inner', [args[0]])[0] if self.strip_casts(args[0]).get('kind') == 'CXXConstructExpr' else args[0])
            fn = self.tu.byid.get(rd['id'])
            if fn is not None and self.in_repo_decl(fn):
                if self.skipped_function(fn):
                    raise ExtractionBreak('call of non-extracted function %s at %s' % (rd['name'], self.loc(n)))
                name = self.mangled(fn) if fn['kind'] == 'CXXMethodDecl' else rd['name']
                call = '%s(%s)' % (name, ', '.join(self.gen_args(fn, args)))
                if fn['type']['qualType'].split('(')[0].strip().endswith('&'):
                    call = '(*%s)' % call
                return call
            if is_std(self.node_types(callee)) or is_std(self.node_types(n)):
                raise ExtractionBreak('call of std function in kept code at ' + self.loc(n))
        if callee.get('kind') == 'MemberExpr':
            # static member function called through an object expression
            fn = self.tu.byid.get(callee.get('referencedMemberDecl'))
            if fn is not None and fn.get('kind') == 'CXXMethodDecl' and self.in_repo_decl(fn) and not self.skipped_function(fn):
                self.fire('R3-staticcall')
                return '%s(%s)' % (self.mangled(fn), ', '.join(self.gen_args(fn, args)))
            raise ExtractionBreak('call through member expression at ' + self.loc(n))
        return None

    def g_CXXMemberCallExpr(self, n):
        me = n['inner'][0]
        args = n['inner'][1:]
        if me.get('kind') != 'MemberExpr':
            raise ExtractionBreak('member call through %s at %s' % (me.get('kind'), self.loc(n)))
        depth, obj = self.base_path(me['inner'][0])
        ot = self.node_types(obj)
        if is_sync(ot):
            return self.gen_sync_call(n, me, obj, args)
        m = self.tu.byid.get(me.get('referencedMemberDecl'))
        if m is None:
            raise ExtractionBreak('unresolved member call %s at %s' % (me.get('name'), self.loc(n)))
        rec = self.rec_of_method(m)
        if rec and rec['name'] in PRINT_FAMILY:
            if m.get('name') == 'printinv':
                self.fire('R11-printinv')
                return '(%s)' % self.gen(args[0])
            raise ExtractionBreak('print-family call in kept code at ' + self.loc(n))
        if self.skipped_function(m):
            raise ExtractionBreak('call of non-extracted method %s at %s' % (m.get('name'), self.loc(n)))
        bp = ('_base.' * depth).rstrip('.')
        if obj.get('kind') == 'CXXThisExpr':
            o = 'this' if not depth else '&this->' + bp
        elif me.get('isArrow'):
            o = self.gen(obj) if not depth else '&(%s)->%s' % (self.gen(obj), bp)
        else:
            o = '&(%s)' % self.gen(obj) if not depth else '&(%s).%s' % (self.gen(obj), bp)
        self.fire('R3-call')
        # R5: a virtual call is static when the receiver's static class has no subclass, or the receiver is an object
        name = self.mangled(m)
        if m.get('virtual') or self.overrides_virtual(m):
            orec = self.static_class_of(obj, me)
            target = self.final_overrider(orec, m) if orec else None
            if orec and (not self.has_subclass(orec) or not me.get('isArrow') and obj.get('kind') != 'CXXThisExpr') and target is not None:
                trec = self.rec_of_method(target)
                hops = self.hops(orec, trec)
                if hops:
                    o = '&(%s)->%s' % (o, ('_base.' * hops).rstrip('.')) if not o.startswith('&') else o + '.' + ('_base.' * hops).rstrip('.')
                # receiver was cast to the declaring class by clang (depth hops); undo towards the overrider's class
                if depth:
                    # the call was resolved in a base: address the object as its static class
                    o = self.addr_of_obj(obj, me)
                    h2 = self.hops(orec, trec)
                    if h2:
                        o = '&(%s)->%s' % (o, ('_base.' * h2).rstrip('.'))
                name = self.mangled(target)
                self.fire('R5-static')
            else:
                self.fire('R5-dispatch')   # dispatcher has the declaring class's mangled name
        call = '%s(%s)' % (name, ', '.join([o] + self.gen_args(m, args)))
        if m['type']['qualType'].split('(')[0].strip().endswith('&'):
            call = '(*%s)' % call
        return call

    def addr_of_obj(self, obj, me):
        if obj.get('kind') == 'CXXThisExpr':
            return 'this'
        if me.get('isArrow'):
            return self.gen(obj)
        return '&(%s)' % self.gen(obj)

    def hops(self, frm, to):
        h = 0
        r = frm
        while r is not None and r is not to:
            r = self.base_rec(r)
            h += 1
        if r is None:
            raise ExtractionBreak('class %s is not a base of %s' % (to['qname'], frm['qname']))
        return h

    def static_class_of(self, obj, me):
        t = obj.get('type', {}).get('qualType', '')
        t = t.replace('const ', '').replace('*', '').replace('&', '').strip()
        return self.find_record(t)

    def overrides_virtual(self, m):
        rec = self.rec_of_method(m)
        r = self.base_rec(rec) if rec else None
        while r:
            for x in r['methods']:
                if x.get('name') == m.get('name') and x.get('virtual') and self.ptypes(x) == self.ptypes(m):
                    return True
            r = self.base_rec(r)
        return False

    def final_overrider(self, rec, m):
        r = rec
        while r:
            for x in r['methods']:
                if x['kind'] == 'CXXMethodDecl' and x.get('name') == m.get('name') and self.ptypes(x) == self.ptypes(m) \
                        and not x.get('pure'):
                    return x
            r = self.base_rec(r)
        return None

    # ---- R12 sync primitives
    def gen_lock_decl(self, n, v):
        qt = v['type']['qualType']
        ce = [c for c in v.get('inner', []) if c][0]
        arg = self.strip_casts(ce['inner'][0]) if ce.get('inner') else None
        if arg is None:
            raise ExtractionBreak('lock object without a mutex at ' + self.loc(n))
        mtx = '&(%s)' % self.gen(arg)
        self.fire('R12-lock')
        if 'unique_lock' in qt:
            self.lockers[v['name']] = mtx
            # R12c: the destructor of a unique_lock releases the mutex if the lock object still owns it (the ghost flag `held` is
            # "held by this thread", which is what owns_lock() says for the only lock object on that mutex in the function)
            self.scope_unlocks[-1].append('if ((%s)->held) wv_mutex_unlock(%s);' % (mtx, mtx))
            return 'wv_mutex_lock(%s);' % mtx
        if 'lock_guard' in qt:
            self.scope_unlocks[-1].append('wv_mutex_unlock(%s);' % mtx)
            return 'wv_mutex_lock(%s);' % mtx
        raise ExtractionBreak('unsupported sync declaration %s at %s' % (qt, self.loc(n)))

    def gen_sync_call(self, n, me, obj, args):
        name = me.get('name')
        ot = self.node_types(obj)
        self.fire('R12-call')
        if 'unique_lock' in ot:
            var = self.strip_casts(obj).get('referencedDecl', {}).get('name')
            if var not in self.lockers:
                raise ExtractionBreak('unknown lock variable at ' + self.loc(n))
            if name == 'unlock':
                return 'wv_mutex_unlock(%s)' % self.lockers[var]
            if name == 'lock':
                return 'wv_mutex_lock(%s)' % self.lockers[var]
        if 'condition_variable' in ot:
            cv = '&(%s)' % self.gen(obj)
            if name == 'wait' and len(args) == 1:
                var = self.strip_casts(args[0]).get('referencedDecl', {}).get('name')
                if var not in self.lockers:
                    raise ExtractionBreak('cv.wait on unknown lock at ' + self.loc(n))
                return 'wv_cv_wait(%s, %s)' % (cv, self.lockers[var])
            # R12b predicate overloads.  wait(lock, pred) is `while (!pred()) wait(lock);`: it returns only with the predicate true, and
            # without letting go of the lock if it is true already.  The rely in the contract of wv_cv_wait is closed under repetition, so
            # one call stands for any number of rounds and the exit condition is assumed (partial correctness: blocking for ever is the
            # liveness side, C04).  wait_for / wait_until(lock, time, pred) may also give up with the predicate false; they yield pred().
            if name in ('wait', 'wait_for', 'wait_until') and len(args) == (2 if name == 'wait' else 3):
                var = self.strip_casts(args[0]).get('referencedDecl', {}).get('name')
                pred = self.lambda_predicate(args[-1])
                if var in self.lockers and pred:
                    self.fire('R12b-predicate-wait')
                    if name == 'wait':
                        return '({ if (!(%s)) { wv_cv_wait(%s, %s); __CPROVER_assume(%s); } })' % (pred, cv, self.lockers[var], pred)
                    return '({ if (!(%s)) wv_cv_wait(%s, %s); (bool)(%s); })' % (pred, cv, self.lockers[var], pred)
            # R12c timed waits without a predicate: wait_for(lock, duration) / wait_until(lock, time_point).  One round of wv_cv_wait
            # (lock released, the other threads' rely applied, lock re-acquired) and an arbitrary std::cv_status as the result:
            # 1 = timeout, 0 = no_timeout (either may come with any state the rely allows).  The time argument is not generated
            # (its declaration, of a std::chrono type, is dropped by R11): how long the wait lasts is not modelled.
            if name in ('wait_for', 'wait_until') and len(args) == 2:
                var = self.strip_casts(args[0]).get('referencedDecl', {}).get('name')
                if var in self.lockers:
                    self.fire('R12c-timed-wait')
                    return '({ wv_cv_wait(%s, %s); _Bool wv_to; (int)wv_to; })' % (cv, self.lockers[var])
            if name == 'notify_all':
                return 'wv_cv_notify_all(%s)' % cv
            if name == 'notify_one':
                return 'wv_cv_notify_one(%s)' % cv
        if 'std::thread' in ot and name == 'join':
            return 'wv_thread_join(&(%s))' % self.gen(obj)
        raise ExtractionBreak('unsupported sync call %s on %s at %s' % (name, ot.strip(), self.loc(n)))

    def lambda_predicate(self, a):
        """the C text of `[this]{ return <expr>; }` (a lambda whose body is one return statement), else None"""
        stack = [a]
        lam = None
        while stack:
            x = stack.pop()
            if not x:
                continue
            if x.get('kind') == 'LambdaExpr':
                lam = x
                break
            stack.extend(x.get('inner', []))
        if lam is None:
            return None
        body = [c for c in lam.get('inner', []) if c and c.get('kind') == 'CompoundStmt']
        if not body:
            return None
        stmts = [c for c in body[-1].get('inner', []) if c]
        if len(stmts) != 1 or stmts[0].get('kind') != 'ReturnStmt' or not stmts[0].get('inner'):
            return None
        try:
            return self.gen(stmts[0]['inner'][0])
        except ExtractionBreak:
            return None

    def g_CXXOperatorCallExpr(self, n):
        # R13: threads[i] = std::thread(f, a, std::ref(b))
        if 'std::thread' in self.node_types(n):
            lhs = n['inner'][1]
            tmp = self.strip_casts(n['inner'][2])
            if tmp.get('kind') == 'CXXTemporaryObjectExpr':
                targs = [self.strip_casts(a) for a in tmp.get('inner', [])]
                fn = targs[0]
                out = []
                for a in targs[1:]:
                    if a.get('kind') == 'CallExpr' and 'reference_wrapper' in self.node_types(a):
                        out.append('&(%s)' % self.gen(a['inner'][1]))
                    else:
                        out.append(self.gen(a))
                fname = fn.get('referencedDecl', {}).get('name')
                self.fire('R13-spawn')
                return 'wv_thread_spawn_%s(&(%s), %s)' % (fname, self.gen(lhs), ', '.join(out))
        raise ExtractionBreak('operator call at ' + self.loc(n))

    # ---- R6 new / delete
    def g_CXXNewExpr(self, n):
        t = n['type']['qualType']
        pre, _ = self.map_type(t)
        elem = pre.rstrip()
        elem = elem[:-1].strip() if elem.endswith('*') else elem
        kids = [c for c in n.get('inner', []) if c]
        self.fire('R6-new')
        if n.get('isArray'):
            size = self.gen(kids[0])
            rec = self.find_record(elem) if '*' not in elem else None
            ctor = self.ctor_for(rec, []) if rec else None
            if rec and (ctor or self.needs_ctor(rec)):
                h = 'wv_new_array_' + rec['qname']
                self.helpers[h] = ('static %s *%s(size_t n)\n{\n  %s *p = (%s *)wv_new(sizeof(%s) * n);\n'
                                   '  for (size_t k = 0; k < n; ++k)\n    %s(&p[k]);\n  return p;\n}\n'
                                   % (elem, h, elem, elem, elem, self.ctor_name(rec, ctor)))
                return '%s(%s)' % (h, size)
            return '((%s)wv_new(sizeof(%s) * (%s)))' % (pre, elem, size)
        ce = kids[-1] if kids else None
        rec = self.find_record(elem)
        if rec is None:
            return '((%s)wv_new(sizeof(%s)))' % (pre, elem)
        if rec['name'] in PRINT_FAMILY:
            raise ExtractionBreak('new of print family in kept code at ' + self.loc(n))
        args = [a for a in (ce.get('inner', []) if ce and ce.get('kind') == 'CXXConstructExpr' else []) if a]
        ctor = self.ctor_by_expr(rec, ce)
        if ctor is None and not self.needs_ctor(rec):
            return '((%s)wv_new(sizeof(%s)))' % (pre, elem)
        cname = self.ctor_name(rec, ctor)
        h = 'wv_new_' + cname
        ps = [self.decl(p['type']['qualType'], 'a%d' % i) for i, p in enumerate(
            [p for p in (ctor.get('inner', []) if ctor else []) if p and p.get('kind') == 'ParmVarDecl'
             and not is_stdfunc(p['type']['qualType'])])]
        an = ['a%d' % i for i in range(len(ps))]
        self.helpers[h] = ('static %s *%s(%s)\n{\n  %s *p = (%s *)wv_new(sizeof(%s));\n  %s(%s);\n  return p;\n}\n'
                           % (elem, h, ', '.join(ps) or 'void', elem, elem, elem, cname, ', '.join(['p'] + an)))
        return '%s(%s)' % (h, ', '.join(self.gen_args(ctor, args) if ctor else []))

    def needs_ctor(self, rec):
        """a class without a user constructor still needs a generated one if it is polymorphic or has members/bases that do"""
        if rec is None:
            return False
        if self.is_polymorphic(rec):
            return True
        if any(m['kind'] == 'CXXConstructorDecl' for m in rec['methods']):
            return True
        if self.base_rec(rec) and self.needs_ctor(self.base_rec(rec)):
            return True
        for f in rec['fields']:
            if f['kind'] == 'FieldDecl':
                if [c for c in f.get('inner', []) if c]:      # in-class initialiser
                    return True
                fr = self.find_record(f['type']['qualType'].split('[')[0])
                if fr and fr is not rec and '*' not in f['type']['qualType'] and self.needs_ctor(fr):
                    return True
        return False

    def ctor_for(self, rec, argtypes):
        cs = [m for m in rec['methods'] if m['kind'] == 'CXXConstructorDecl']
        for c in cs:
            if len(self.ptypes(c)) == len(argtypes):
                return c
        return None

    def ctor_by_expr(self, rec, ce):
        if ce is None or ce.get('kind') != 'CXXConstructExpr':
            return None
        want = ce.get('type', {}).get('qualType', '')
        nargs = len([a for a in ce.get('inner', []) if a])
        cs = [m for m in rec['methods'] if m['kind'] == 'CXXConstructorDecl']
        exact = [c for c in cs if len(self.ptypes(c)) == nargs]
        if len(exact) == 1:
            return exact[0]
        # with default arguments the expression carries CXXDefaultArgExpr children, so counts match
        if len(exact) > 1:
            raise ExtractionBreak('ambiguous constructor overload for ' + rec['qname'])
        return None

    def ctor_name(self, rec, ctor):
        if ctor is not None:
            return self.mangled(ctor)
        return rec['qname'] + '__ctor'

    def g_CXXDeleteExpr(self, n):
        arg = n['inner'][0]
        t = self.strip_casts(arg).get('type', {}).get('qualType', '')
        elem = t.replace('const ', '').rstrip().rstrip('*').strip()
        rec = self.find_record(elem) if elem.count('*') == 0 else None
        self.fire('R6-delete')
        if rec and rec['name'] in PRINT_FAMILY:
            raise ExtractionBreak('delete of print family in kept code at ' + self.loc(n))
        e = self.gen(arg)
        if rec and any(m['kind'] == 'CXXDestructorDecl' for m in rec['methods']) and not n.get('isArray'):
            return '(%s__dtor(%s), free(%s))' % (rec['qname'], e, e)
        return 'free(%s)' % e

    def g_CXXConstructExpr(self, n):
        # copy of a trivially copyable object (e.g. passing Settings by value): the source expression itself
        kids = [c for c in n.get('inner', []) if c]
        if len(kids) == 1 and n.get('type', {}).get('qualType', '') and not is_std(self.node_types(n)):
            rec = self.find_record(n['type']['qualType'])
            if rec and not any(m['kind'] == 'CXXConstructorDecl' and len(self.ptypes(m)) == 1 and
                               rec['name'] in self.ptypes(m)[0] for m in rec['methods']):
                return self.gen(kids[0])
        raise ExtractionBreak('constructor expression at ' + self.loc(n))

    def g_CXXDefaultArgExpr(self, n):
        raise ExtractionBreak('default argument outside a resolved call at ' + self.loc(n))

    def g_CXXDefaultInitExpr(self, n):
        raise ExtractionBreak('default member initialiser outside a constructor at ' + self.loc(n))

    # ------------------------------------------------------------------ functions
    def sig(self, f):
        rec = self.rec_of_method(f) if f['kind'] != 'FunctionDecl' else None
        name = self.mangled(f)
        if f['kind'] in ('CXXConstructorDecl', 'CXXDestructorDecl'):
            rt = 'void'
        else:
            rt, _ = self.map_type(f['type']['qualType'].split('(')[0].strip())
        ps = []
        if rec and f.get('storageClass') != 'static' and self.canon(f).get('storageClass') != 'static':
            ps.append('%s *this' % rec['qname'])
        for p in f.get('inner', []):
            if p and p.get('kind') == 'ParmVarDecl':
                qt = p['type']['qualType']
                if is_stdfunc(qt):
                    continue
                ps.append(self.decl(qt, p.get('name', '') or 'wv_unnamed'))
        st = 'static ' if f['kind'] == 'FunctionDecl' and f.get('storageClass') == 'static' else ''
        return '%s%s %s(%s)' % (st, rt, name, ', '.join(ps) or 'void')

    def ctor_prologue(self, f, rec):
        lines = []
        inits = [c for c in f.get('inner', []) if c and c.get('kind') == 'CXXCtorInitializer']
        base_done = False
        for ini in inits:
            kids = [c for c in ini.get('inner', []) if c]
            e = kids[0] if kids else None
            if 'baseInit' in ini:
                brec = self.find_record(ini['baseInit']['qualType'])
                if brec is None:
                    raise ExtractionBreak('unknown base ' + ini['baseInit']['qualType'])
                bc = self.ctor_by_expr(brec, e)
                if bc is not None or self.needs_ctor(brec):
                    args = self.gen_args(bc, [a for a in e.get('inner', []) if a]) if bc else []
                    lines.append('  %s(%s);' % (self.ctor_name(brec, bc), ', '.join(['&this->_base'] + args)))
                base_done = True
                continue
            fld = ini.get('anyInit', {})
            fname = fld.get('name')
            ft = fld.get('type', {}).get('qualType', '')
            if is_print(ft) or (is_std(ft) and not is_sync(ft)):
                self.drops.append({'what': 'member initialiser', 'where': self.loc(f), 'text': fname + ' : ' + ft})
                continue
            if is_sync(ft):
                lines.append('  wv_sync_init(&this->%s, sizeof(this->%s));' % (fname, fname))
                continue
            if e is None:
                continue
            if e.get('kind') == 'CXXDefaultInitExpr':
                fd = self.tu.byid.get(fld.get('id'))
                init = [c for c in (fd or {}).get('inner', []) if c]
                if not init:
                    raise ExtractionBreak('default member initialiser of %s not found' % fname)
                lines.append('  this->%s = %s;' % (fname, self.gen(init[0])))
                continue
            ee = self.strip_casts(e)
            if ee.get('kind') == 'CXXConstructExpr':
                frec = self.find_record(ft.split('[')[0])
                args = [a for a in ee.get('inner', []) if a]
                if frec is None:
                    if not args:
                        continue    # trivial default initialisation (e.g. a union of scalars)
                    raise ExtractionBreak('constructor initialiser for non-class member ' + fname)
                # copy-initialisation of a trivially copyable member
                if len(args) == 1 and frec['name'] in self.node_types(args[0]) and not self.ctor_by_expr_safe(frec, ee):
                    lines.append('  this->%s = %s;' % (fname, self.gen(args[0])))
                    continue
                fc = self.ctor_by_expr(frec, ee)
                if fc is None and not self.needs_ctor(frec):
                    continue
                if '[' in ft:
                    nel = re.findall(r'\[(\d+)\]', ft)[0]
                    lines.append('  for (int wv_k = 0; wv_k < %s; ++wv_k) %s(&this->%s[wv_k]);' % (nel, self.ctor_name(frec, fc), fname))
                else:
                    a2 = self.gen_args(fc, args) if fc else []
                    lines.append('  %s(%s);' % (self.ctor_name(frec, fc), ', '.join(['&this->' + fname] + a2)))
                continue
            lines.append('  this->%s = %s;' % (fname, self.gen(e)))
        if self.is_polymorphic(rec):
            d = self.poly_root_depth(rec)
            lines.insert(1 if base_done and lines else 0, '  this->%s_wv_tag = WV_TAG_%s;' % ('_base.' * d, rec['qname']))
        return lines

    def ctor_by_expr_safe(self, rec, ce):
        try:
            return self.ctor_by_expr(rec, ce)
        except ExtractionBreak:
            return None

    def implicit_ctor(self, rec):
        """generated default constructor for a class without a user-written one"""
        lines = []
        b = self.base_rec(rec)
        if b and self.needs_ctor(b):
            bc = self.ctor_for(b, [])
            lines.append('  %s(&this->_base);' % self.ctor_name(b, bc))
        if self.is_polymorphic(rec):
            lines.append('  this->%s_wv_tag = WV_TAG_%s;' % ('_base.' * self.poly_root_depth(rec), rec['qname']))
        for f in rec['fields']:
            if f['kind'] != 'FieldDecl' or not f.get('name'):
                continue
            ft = f['type']['qualType']
            if is_print(ft) or (is_std(ft) and not is_sync(ft)):
                continue
            if is_sync(ft):
                lines.append('  wv_sync_init(&this->%s, sizeof(this->%s));' % (f['name'], f['name']))
                continue
            init = [c for c in f.get('inner', []) if c]
            if init:
                lines.append('  this->%s = %s;' % (f['name'], self.gen(init[0])))
                continue
            fr = self.find_record(ft.split('[')[0]) if '*' not in ft else None
            if fr and self.needs_ctor(fr):
                fc = self.ctor_for(fr, [])
                lines.append('  %s(&this->%s);' % (self.ctor_name(fr, fc), f['name']))
        return 'void %s__ctor(%s *this)' % (rec['qname'], rec['qname']), '{\n' + '\n'.join(lines) + '\n}'

    def emit_func(self, f):
        self.lockers = {}
        self.scope_unlocks = []
        self.cur_ret_ref = f['type']['qualType'].split('(')[0].strip().endswith('&')
        body = [c for c in f['inner'] if c and c.get('kind') == 'CompoundStmt'][0]
        rec = self.rec_of_method(f) if f['kind'] != 'FunctionDecl' else None
        pre = []
        if f['kind'] == 'CXXConstructorDecl':
            pre = self.ctor_prologue(f, rec)
            self.fire('R7-ctor')
        b = self.gen(body)
        fa, fb = self.tu.rng(f)
        ba, bb = self.tu.rng(body)
        contract = []
        for (ms, me, k, t) in self.tu.markers:
            if fa <= ms and me <= ba:
                contract.append(render_marker(k, t))
                self.tu.emitted.add(ms)
            if ba <= ms and me <= bb and ms not in self.tu.emitted:
                raise ExtractionBreak('annotation at %s lost by a rewrite rule' % str(self.tu.where(ms)))
        if pre:
            b = '{\n' + '\n'.join(pre) + '\n' + b.lstrip()[1:]
        file, line = self.tu.where(fa)
        return {'name': self.mangled(f), 'sig': self.sig(f), 'contract': '\n'.join(contract), 'body': b,
                'file': os.path.relpath(file, self.tu.repo), 'line': line,
                'sha256': hashlib.sha256(self.tu.src[fa:fb]).hexdigest()[:16]}


NOCHECK = ('\n#pragma CPROVER check push\n' + ''.join('#pragma CPROVER check disable "%s"\n' % c for c in (
    'bounds', 'pointer', 'signed-overflow', 'unsigned-overflow', 'conversion', 'undefined-shift', 'pointer-overflow',
    'pointer-primitive', 'div-by-zero')), '\n#pragma CPROVER check pop\n')


def render_marker(kind, text):
    # ghost statements, assertions and cut points are ours: CBMC's automatic checks stay on in the repository's own text only
    if kind in ('ASSERT', 'GHOST', 'CUT'):
        return NOCHECK[0] + render_marker0(kind, text) + NOCHECK[1]
    return render_marker0(kind, text)


def render_marker0(kind, text):
    text = text.replace('__null', 'NULL')   # NULL as expanded by the C++ preprocessor
    if kind == 'ASSERT':
        m = re.match(r'\s*("(?:[^"\\]|\\.)*")\s*,(.*)$', text, re.S)
        if not m:
            raise ExtractionBreak('malformed WV_ASSERT: ' + text[:60])
        return '__CPROVER_assert(%s, %s);' % (m.group(2).strip(), m.group(1))
    if kind == 'CUT':
        # WV_CUT(v1, v2, ...; pred): assert pred; havoc the variables; assume pred
        vs, pred = text.split(';', 1)
        hav = ' '.join('__CPROVER_havoc_object(&(%s));' % v.strip() for v in vs.split(',') if v.strip())
        return '__CPROVER_assert(%s, "WV_CUT"); %s __CPROVER_assume(%s);' % (pred.strip(), hav, pred.strip())
    return text


def extract_tu(repo, rel, workdir):
    tu = TU(repo, rel, workdir)
    ex = Extractor(tu)
    out = {'tu': rel, 'types': [], 'globals': [], 'funcs': {}, 'records': {}, 'breaks': {}, 'skipped': {}}
    # typedefs / enums / records in source order
    items = []
    for td in ex.typedefs:
        a, b = tu.rng(td)
        items.append((a, 'typedef:' + td['name'], tu.bsrc[a:b].decode().replace('__null', 'NULL') + ';'))
    for q, e in ex.enums:
        a, b = tu.rng(e)
        body = tu.bsrc[a:b].decode()
        body = body[body.index('{'):]
        items.append((a, 'enum:' + q, 'enum %s %s;\ntypedef enum %s %s;' % (q, body, q, q)))
    for q, info in ex.records.items():
        if info['name'] in PRINT_FAMILY:
            continue
        a, b = tu.rng(info['node'])
        a = b      # nested classes end before the class that contains them
        try:
            kw = 'union' if info['tagUsed'] == 'union' else 'struct'
            items.append((a, 'record:' + q, 'typedef %s %s %s;\n' % (kw, q, q) + ex.emit_record(info)))
        except ExtractionBreak as e:
            out['breaks']['record:' + q] = str(e)
        out['records'][q] = {
            'base': (ex.base_rec(info) or {}).get('qname'),
            'polymorphic': ex.is_polymorphic(info),
            'abstract': any(m.get('pure') for m in info['methods']),
            'virtuals': [{'name': m['name'], 'mangled': ex.mangled(m), 'ptypes': ex.ptypes(m), 'pure': bool(m.get('pure')),
                          'sig': ex.sig(m)} for m in info['methods']
                         if m['kind'] == 'CXXMethodDecl' and (m.get('virtual') or ex.overrides_virtual(m))],
            'user_ctor': any(m['kind'] == 'CXXConstructorDecl' for m in info['methods']),
            'needs_ctor': ex.needs_ctor(info)}
    items.sort(key=lambda x: x[0])
    out['types'] = [(k, t) for _, k, t in items]
    # globals
    for g in ex.globals:
        a, b = tu.rng(g)
        qt = g['type']['qualType']
        txt = tu.bsrc[a:b].decode()
        name = g['name']
        d0 = ex.canon(g)
        pid = d0.get('parentDeclContextId') or (tu.parent.get(d0['id']) or {}).get('id')
        if is_print(qt) or (is_std(qt) and not is_sync(qt)):
            out['skipped']['global:' + name] = qt
            continue
        if pid in ex.rec_by_id:
            name = ex.rec_by_id[pid]['qname'] + '__' + name
            init = [c for c in g.get('inner', []) if c]
            it = ''
            if init and not is_sync(qt):
                ia, ib = tu.rng(init[0])
                it = ' = ' + tu.bsrc[ia:ib].decode().replace('__null', 'NULL')
            pre, suf = ex.map_type(qt)
            out['globals'].append(('global:' + name, '%s %s%s%s;' % (pre, name, suf, it)))
            continue
        rec = ex.find_record(qt.split('[')[0]) if '*' not in qt else None
        if rec and ex.needs_ctor(rec):
            out['skipped']['global:' + name] = 'class-typed global with constructor'
            continue
        if g.get('storageClass') == 'extern':
            continue
        out['globals'].append(('global:' + name, txt.replace('__null', 'NULL') + ';'))
    # functions
    for f in ex.funcs:
        try:
            name = ex.mangled(f)
        except Exception as e:
            continue
        why = ex.skipped_function(f)
        if why:
            out['skipped'][name] = why
            continue
        try:
            out['funcs'][name] = ex.emit_func(f)
        except ExtractionBreak as e:
            out['breaks'][name] = str(e)
    # generated default constructors
    for q, info in ex.records.items():
        if info['name'] in PRINT_FAMILY:
            continue
        if ex.needs_ctor(info) and not any(m['kind'] == 'CXXConstructorDecl' for m in info['methods']):
            try:
                ex.lockers = {}
                ex.scope_unlocks = []
                ex.cur_ret_ref = False
                s, b = ex.implicit_ctor(info)
                a, _ = tu.rng(info['node'])
                file, line = tu.where(a)
                out['funcs'][q + '__ctor'] = {'name': q + '__ctor', 'sig': s, 'contract': '', 'body': b, 'generated': True,
                                              'file': os.path.relpath(file, tu.repo), 'line': line, 'sha256': ''}
            except ExtractionBreak as e:
                out['breaks'][q + '__ctor'] = str(e)
    out['helpers'] = ex.helpers
    out['drops'] = ex.drops
    out['rules'] = ex.rules
    lost = [m for m in tu.markers if m[0] not in tu.emitted]
    out['lost_markers'] = [{'where': '%s:%d' % tu.where(m[0]), 'kind': m[2], 'text': m[3][:80]} for m in lost]
    out['n_markers'] = len(tu.markers)
    return out


if __name__ == '__main__':
    repo, rel, workdir = sys.argv[1:4]
    os.makedirs(workdir, exist_ok=True)
    try:
        res = extract_tu(repo, rel, workdir)
    except ExtractionBreak as e:
        res = {'tu': rel, 'fatal': str(e)}
    json.dump(res, open(os.path.join(workdir, rel.replace('/', '_') + '.json'), 'w'), indent=1)
    if 'fatal' in res:
        print('FATAL', res['fatal'])
        sys.exit(2)
    print(rel, 'funcs', len(res['funcs']), 'breaks', len(res['breaks']), 'skipped', len(res['skipped']),
          'drops', len(res['drops']), 'lost markers', len(res['lost_markers']))
    for k, v in res['breaks'].items():
        print('  BREAK', k, ':', v)

#!/usr/bin/env python3
"""prints the markdown table of /verif/seeded/*/meta.json for DESIGN.md 13.11"""
import glob, json, os
VERIF = os.path.dirname(os.path.dirname(os.path.abspath(__file__)))
print('| seed | change (as titled by its author) | registered check | first failed obligations |')
print('|------|-----------------------------------|------------------|--------------------------|')
for d in sorted(glob.glob(os.path.join(VERIF, 'seeded', '*'))):
    p = os.path.join(d, 'meta.json')
    if not os.path.exists(p):
        continue
    m = json.load(open(p))
    ch = (m.get('change') or '').replace('|', '/')
    ch = ch.split(' - ', 1)[-1] if ch.startswith('Change') else ch
    fo = '; '.join(x.split(':')[0] for x in m.get('first_failed_obligations', [])[:3]) or (m.get('caught_by') if isinstance(m.get('caught_by'), str) else '') or '-'
    print('| %s | %s | %s | %s |' % (os.path.basename(d), ch[:140], m.get('check_result', '?'), fo[:160].replace('|', '/')))

/* Environment of the extracted C: ghost file, ghost synchronisation primitives, allocation (DESIGN.md 4 P-D, P-E, R6, R12, R13, R15).
   Every function declared here WITHOUT a body is an assumed contract (listed in the evidence as trusted base). */
#ifndef WV_ENV_H
#define WV_ENV_H
#include <stddef.h>
#include <stdint.h>
#include <stdbool.h>
#include <string.h>
#include <stdlib.h>
#include <ctype.h>
#include <time.h>

#ifdef WV_NATIVE
/* ---------- native build of the extracted text (differential smoke test only) ---------- */
#include <stdio.h>
#include <assert.h>
#define wv_new(n) malloc(n)
#define __CPROVER_assert(c, m) assert((c) && m)
#define __CPROVER_assume(c) ((void)0)
typedef struct { int held; } wv_mutex;
typedef struct { int id; } wv_cv;
typedef struct { int started; } wv_thread;
static inline void wv_sync_init(void *p, size_t n) { memset(p, 0, n); }
static inline void wv_mutex_lock(wv_mutex *m) { m->held = 1; }
static inline void wv_mutex_unlock(wv_mutex *m) { m->held = 0; }
static inline void wv_cv_wait(wv_cv *c, wv_mutex *m) { abort(); }
static inline void wv_cv_notify_all(wv_cv *c) {}
static inline void wv_thread_join(wv_thread *t) {}
#define wv_thread_spawn_multiruncrypt_file(t, i, m) abort()
#include <getopt.h>
#include <sys/stat.h>
static inline unsigned long long wv_file_size(const char *p) { struct stat st; return stat(p, &st) ? 0 : st.st_size; }
#else
/* ---------- CBMC view ---------- */
typedef unsigned long long wv_u64;

/* P-D ghost file: length and position are symbolic 64-bit numbers, content is tracked through ghost indices */
typedef struct wv_FILE
{
  wv_u64 len;      /* current length in bytes */
  wv_u64 pos;      /* file position indicator */
  bool eof;        /* end-of-file indicator (set only by a short read) */
  bool open;
  int id;          /* identity for frame conditions: 1 = input file, 2 = output file */
  wv_u64 nwrites;  /* number of fwrite calls issued on this stream */
  wv_u64 nbytes;   /* number of bytes written to this stream */
  wv_u64 min_woff; /* smallest offset any write touched (ULLONG_MAX if none) */
  wv_u64 last_woff, last_wlen;
} wv_FILE;
#define FILE wv_FILE
#define SEEK_SET 0
#define SEEK_CUR 1
#define SEEK_END 2
#define EOF (-1)
extern wv_FILE *stdout, *stderr, *stdin;

#define fread wv_fread
#define fwrite wv_fwrite
#define fseek wv_fseek
#define feof wv_feof
#define fgetc wv_fgetc
#define ungetc wv_ungetc
#define fclose wv_fclose
#define fopen wv_fopen
#define fflush wv_fflush
#define ftell wv_ftell
#define rewind(f) ((void)wv_fseek((f), 0, SEEK_SET))
size_t wv_fread(void *p, size_t sz, size_t n, wv_FILE *f);
size_t wv_fwrite(const void *p, size_t sz, size_t n, wv_FILE *f);
int wv_fseek(wv_FILE *f, long off, int whence);
int wv_feof(wv_FILE *f);
long wv_ftell(wv_FILE *f);
int wv_fgetc(wv_FILE *f);
int wv_ungetc(int c, wv_FILE *f);
int wv_fclose(wv_FILE *f);
#define strlen wv_strlen
/* <string.h> comparison / bounded copy functions as plain loops written from the C standard (CBMC's built-in models of them did not
   finish on symbolic buffers in these proofs - measured: 900 s time-out for one strncmp over a 32-byte tag) */
static inline int wv_strncmp(const char *a, const char *b, size_t n)
{
  for (size_t i = 0; i < n; i++)
  {
    unsigned char x = (unsigned char)a[i], y = (unsigned char)b[i];
    if (x != y) return x < y ? -1 : 1;
    if (x == 0) return 0;
  }
  return 0;
}
static inline int wv_memcmp(const void *a, const void *b, size_t n)
{
  for (size_t i = 0; i < n; i++)
  {
    unsigned char x = ((const unsigned char *)a)[i], y = ((const unsigned char *)b)[i];
    if (x != y) return x < y ? -1 : 1;
  }
  return 0;
}
static inline char *wv_strncpy(char *d, const char *s, size_t n)
{
  size_t i = 0;
  for (; i < n && s[i] != 0; i++) d[i] = s[i];
  for (; i < n; i++) d[i] = 0;
  return d;
}
#define strncmp wv_strncmp
#define memcmp wv_memcmp
#define strncpy wv_strncpy
size_t wv_strlen(const char *s);
wv_FILE *wv_fopen(const char *path, const char *mode);
static inline int wv_fflush(wv_FILE *f) { int wv_r; return wv_r; }   /* no effect on the ghost file */
static inline int fprintf(wv_FILE *f, const char *fmt, ...) { int wv_r; return wv_r; }   /* diagnostics only */

/* R6: operator new never returns NULL (it throws); CBMC's malloc may fail */
static inline void *wv_new(size_t n)
{
  void *p = malloc(n);
  __CPROVER_assume(p != NULL);
  return p;
}

/* free(): CBMC's library model of free, once instrumented by DFCC, costs several hundred thousand SAT variables per call site
   (measured: 35 unwound call sites in hmac::cmphmac -> 28 M variables).  The extracted text therefore calls this model: the
   pointer must be NULL or the start of a live heap object (r_ok fails on freed or invalid memory), then the object is
   deallocated.  What is lost: DFCC's check that the freed object is in the caller's `frees` clause. */
static inline void wv_free(void *p)
{
  if (p != NULL)
  {
    __CPROVER_assert(__CPROVER_DYNAMIC_OBJECT(p) && __CPROVER_POINTER_OFFSET(p) == 0 && __CPROVER_r_ok(p, 1), "free argument is the start of a live heap object");
    __CPROVER_deallocate(p);
  }
}
#define free(p) wv_free(p)

/* R12 / R13 ghost synchronisation primitives */
typedef struct { bool held; } wv_mutex;
typedef struct { unsigned notified; } wv_cv;
typedef struct { bool started, joined; int fn; unsigned arg; void *obj; } wv_thread;
static inline void wv_sync_init(void *p, size_t n) { memset(p, 0, n); }
/* std::mutex as a ghost flag: locking a mutex this thread already holds is a self-deadlock (asserted), unlocking needs the lock;
   other threads' critical sections are accounted for by the rely of the thread-modular contracts (pipeline.h), not here */
static inline void wv_mutex_lock(wv_mutex *m)
{
  __CPROVER_assert(!m->held, "[C04] lock of a mutex that this thread already holds (self-deadlock)");
  m->held = 1;
}
static inline void wv_mutex_unlock(wv_mutex *m)
{
  __CPROVER_assert(m->held, "[C14] unlock of a mutex that is not held");
  m->held = 0;
}
void wv_cv_wait(wv_cv *cv, wv_mutex *m);
void wv_cv_notify_all(wv_cv *cv);
void wv_cv_notify_one(wv_cv *cv);
/* R13 std::thread as a ghost record: which function a thread object was started with and with which arguments; join requires a
   started, not yet joined thread (std::thread::join on anything else throws).  What the thread does while it runs is the rely of the
   thread-modular contracts (pipeline.h), not modelled here. */
extern unsigned wv_worker_mask;   /* ghost, wv_ghost.h */
static inline void wv_thread_spawn_multiruncrypt_file(wv_thread *t, unsigned char id, void *mode)
{
  t->started = 1; t->joined = 0; t->fn = 1; t->arg = id; t->obj = mode;
  if (id < 16) wv_worker_mask |= 1u << id;
}
static inline void wv_thread_join(wv_thread *t)
{
  __CPROVER_assert(t->started && !t->joined, "[C04] join of a thread that was started and has not been joined yet");
  t->joined = 1;
}

/* <ctype.h> in the C locale (the program never calls setlocale): glibc's isalnum(c) expands to a table lookup through
   __ctype_b_loc(); the model provides the alnum bit (_ISalnum == 8) for the ASCII letters and digits only */
static const unsigned short wv_ctype_tab[384] = {
#define WV_C0 0, 0, 0, 0, 0, 0, 0, 0
#define WV_C8 8, 8, 8, 8, 8, 8, 8, 8
  WV_C0, WV_C0, WV_C0, WV_C0, WV_C0, WV_C0, WV_C0, WV_C0, WV_C0, WV_C0, WV_C0, WV_C0, WV_C0, WV_C0, WV_C0, WV_C0, /* -128..-1 */
  WV_C0, WV_C0, WV_C0, WV_C0, WV_C0, WV_C0,                 /* 0..47 */
  WV_C8, 8, 8, 0, 0, 0, 0, 0, 0,                            /* '0'..'9', 58..63 */
  0, 8, 8, 8, 8, 8, 8, 8, WV_C8, WV_C8, 8, 8, 8, 0, 0, 0, 0, 0,   /* 64, 'A'..'Z', 91..95 */
  0, 8, 8, 8, 8, 8, 8, 8, WV_C8, WV_C8, 8, 8, 8, 0, 0, 0, 0, 0,   /* 96, 'a'..'z', 123..127 */
  WV_C0, WV_C0, WV_C0, WV_C0, WV_C0, WV_C0, WV_C0, WV_C0, WV_C0, WV_C0, WV_C0, WV_C0, WV_C0, WV_C0, WV_C0, WV_C0};
static const unsigned short *const wv_ctype_ptr = wv_ctype_tab + 128;
static inline const unsigned short **__ctype_b_loc(void) { return (const unsigned short **)&wv_ctype_ptr; }

/* R14 / C17 environment */
wv_u64 wv_file_size(const char *path);
struct option { const char *name; int has_arg; int *flag; int val; };
extern int optind;
extern char *optarg;
int getopt_long(int argc, char *const argv[], const char *optstring, const struct option *longopts, int *longindex);
int sprintf(char *s, const char *fmt, ...);
#include "wv_ghost.h"
#endif
#endif

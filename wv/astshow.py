import sys, json
from astload import TU
def show(tu, n, d=0, maxd=99):
    if d > maxd: return
    r = tu.rng(n)
    txt = tu.bsrc[r[0]:r[1]].decode(errors='replace').replace('\n',' ')[:60] if r else ''
    extra = {k: n[k] for k in ('name','castKind','isArrow','opcode','value','isImplicit','implicit','virtual','isArray') if k in n}
    t = n.get('type',{}).get('qualType','')
    print('  '*d + n.get('kind','?'), extra, '<'+t+'>', '|', txt)
    for c in n.get('inner',[]):
        if c: show(tu, c, d+1, maxd)
if __name__=='__main__':
    tu = TU('/repo', sys.argv[1], '/tmp/p2')
    pat = sys.argv[2]
    for n in tu.ast['inner']:
        def walk(n):
            if n.get('name')==pat and n.get('kind') in ('CXXMethodDecl','FunctionDecl','CXXConstructorDecl','CXXRecordDecl','CXXDestructorDecl','VarDecl'):
                show(tu, n, 0, int(sys.argv[3]) if len(sys.argv)>3 else 99); print('----')
            for c in n.get('inner',[]):
                if c: walk(c)
        walk(n)

/* Contracts for kernel/fheader.cpp: class hmac (C08, C05, C06) and class FileHeader (C02, C18, C11). */
#ifndef WV_C_FHEADER_H
#define WV_C_FHEADER_H
#include "hash.h"
/* the proofs are run once per hash type (WV_HTYPE_FIX = 0, 1, 2): constant buffer sizes keep the formulas small */
#ifdef WV_HTYPE_FIX
#define WV_HT_OK(t) ((t) == WV_HTYPE_FIX)
#else
#define WV_HT_OK(t) ((t) <= 2)
#endif
#define WV_HLEN_OF_TYPE(t) ((t) == 0 ? 20 : (t) == 1 ? 16 : 32)
#define WV_HMAC_GHOSTS wv_hl, wv_hl_out, wv_fb_left0, wv_flen0
#define WV_FILE_FRESH(f) (__CPROVER_is_fresh(f, sizeof(wv_FILE)) && WV_FILE_OK(f))

/* hash factory: a fresh hasher object of the class for the type number, NULL for anything else */
HashFactory__HASH_TYPE HashFactory__getType(u8_t type)
__CPROVER_assigns()
__CPROVER_ensures(__CPROVER_return_value == (type == 0 ? SHA1 : type == 1 ? MD5 : type == 2 ? SHA256 : Unknown));

Hashmaster *HashFactory__getHasher(HashFactory *this, HashFactory__HASH_TYPE type)
__CPROVER_assigns()
__CPROVER_ensures((type != SHA1 && type != MD5 && type != SHA256) ==> __CPROVER_return_value == NULL)
__CPROVER_ensures((type == SHA1 || type == MD5 || type == SHA256) ==> (__CPROVER_is_fresh(__CPROVER_return_value, type == SHA1 ? sizeof(sha1hash) : type == MD5 ? sizeof(md5hash) : sizeof(sha256hash)) &&
  WV_TAG_OF(__CPROVER_return_value) == (type == SHA1 ? WV_TAG_sha1hash : type == MD5 ? WV_TAG_md5hash : WV_TAG_sha256hash)));

/* RFC 2104 tag of the bytes from the file position to end of file (structure: in-body assertions and the hash call logs) */
void hmac__getres(hmac *this, u8_t hashtype, u8_t *key, FILE *fp, size_t fsize)
__CPROVER_requires(__CPROVER_is_fresh(this, sizeof(*this)) && WV_HT_OK(hashtype) && __CPROVER_is_fresh(key, 16) && WV_FILE_FRESH(fp))
__CPROVER_requires(wv_g < 64 && wv_gr < WV_HLEN_OF_TYPE(hashtype) && wv_hl_n < (1ull << 50))
__CPROVER_assigns(this->length, this->hmac_res, this->buf, fp->pos, fp->eof, WV_HMAC_GHOSTS)
__CPROVER_ensures(this->length == WV_HLEN_OF_TYPE(hashtype) && __CPROVER_is_fresh(this->hmac_res, WV_HLEN_OF_TYPE(hashtype)) && this->buf == NULL)
__CPROVER_ensures(fp->pos == fp->len && wv_flen0 == __CPROVER_old(fp->len) - __CPROVER_old(fp->pos));

/* tag comparison accepts if and only if every tag byte matches */
bool hmac__cmphmac(hmac *this, u8_t hashtype, u8_t *key, FILE *fp, const u8_t *hmac_out, size_t fsize)
__CPROVER_requires(__CPROVER_is_fresh(this, sizeof(*this)) && WV_HT_OK(hashtype) && __CPROVER_is_fresh(key, 16) && WV_FILE_FRESH(fp) &&
                   __CPROVER_is_fresh(hmac_out, WV_HLEN_OF_TYPE(hashtype)))
__CPROVER_requires(wv_g < 64 && wv_gr < WV_HLEN_OF_TYPE(hashtype) && wv_hl_n < (1ull << 50))
__CPROVER_assigns(this->length, this->hmac_res, this->buf, fp->pos, fp->eof, WV_HMAC_GHOSTS, wv_tagv)
__CPROVER_ensures(this->length == WV_HLEN_OF_TYPE(hashtype) && fp->pos == fp->len && wv_flen0 == __CPROVER_old(fp->len) - __CPROVER_old(fp->pos))
__CPROVER_ensures(__CPROVER_return_value == WV_TAGEQ(hmac_out, WV_HLEN_OF_TYPE(hashtype)));

void hmac__gethmac(hmac *this, u8_t hashtype, u8_t *key, FILE *fp, u8_t *hmac_out, size_t fsize)
__CPROVER_requires(__CPROVER_is_fresh(this, sizeof(*this)) && WV_HT_OK(hashtype) && __CPROVER_is_fresh(key, 16) && WV_FILE_FRESH(fp) &&
                   __CPROVER_is_fresh(hmac_out, WV_HLEN_OF_TYPE(hashtype)))
__CPROVER_requires(wv_g < 64 && wv_gr < WV_HLEN_OF_TYPE(hashtype) && wv_hl_n < (1ull << 50))
__CPROVER_assigns(this->length, this->hmac_res, this->buf, fp->pos, fp->eof, WV_HMAC_GHOSTS, wv_tagv, __CPROVER_object_whole(hmac_out))
__CPROVER_ensures(this->length == WV_HLEN_OF_TYPE(hashtype) && fp->pos == fp->len && hmac_out[wv_gr] == wv_tag[wv_gr]);

/* the tag of [hashMark, EOF) is written with ONE fwrite of exactly `length` bytes at offset writeMark */
void hmac__writeFileHmac(hmac *this, u8_t hashtype, FILE *fp, u8_t *key, u8_t hashMark, u8_t writeMark, size_t fsize)
__CPROVER_requires(__CPROVER_is_fresh(this, sizeof(*this)) && WV_HT_OK(hashtype) && __CPROVER_is_fresh(key, 16) && __CPROVER_is_fresh(fp, sizeof(wv_FILE)) &&
                   fp->open && fp->len < (1ull << 58) && hashMark <= fp->len)
__CPROVER_requires(wv_g < 64 && wv_gr < WV_HLEN_OF_TYPE(hashtype) && wv_hl_n < (1ull << 50))
__CPROVER_assigns(this->length, this->hmac_res, this->buf, WV_HMAC_GHOSTS, wv_tagv, WV_FILE_WSTATE(fp))
__CPROVER_ensures(this->length == WV_HLEN_OF_TYPE(hashtype) && wv_flen0 == __CPROVER_old(fp->len) - hashMark)
__CPROVER_ensures(fp->nwrites == __CPROVER_old(fp->nwrites) + 1 && fp->last_woff == writeMark && fp->last_wlen == WV_HLEN_OF_TYPE(hashtype))
__CPROVER_ensures(fp->len == ((wv_u64)writeMark + WV_HLEN_OF_TYPE(hashtype) > __CPROVER_old(fp->len) ? (wv_u64)writeMark + WV_HLEN_OF_TYPE(hashtype) : __CPROVER_old(fp->len)))
__CPROVER_ensures((wv_wP >= writeMark && wv_wP < (wv_u64)writeMark + WV_HLEN_OF_TYPE(hashtype)) ==> wv_wbyte == wv_tag[wv_wP - writeMark]);
#endif

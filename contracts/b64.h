/* Contracts for valget/base64/base64.cpp and its callers (C16). */
#ifndef WV_C_B64_H
#define WV_C_B64_H
#include "b64_spec.h"
#ifndef WV_B64_MAXIN
#define WV_B64_MAXIN 24      /* bounded stand-in for the codec loops: input bytes */
#endif
#define WV_B64_MAXSYM (4 * ((WV_B64_MAXIN + 2) / 3))
unsigned wv_bg, wv_bj;       /* ghost: observed group and position inside the group */

bool hex_to_base64(const u8_t *hex_in, int len, u8_t *base64_out)
__CPROVER_requires(0 <= len && len <= WV_B64_MAXIN && __CPROVER_is_fresh(hex_in, len) && __CPROVER_is_fresh(base64_out, 4 * ((len + 2) / 3) + 1))
__CPROVER_assigns(__CPROVER_object_whole(base64_out))
__CPROVER_ensures(__CPROVER_return_value)
__CPROVER_ensures(base64_out[4 * ((len + 2) / 3)] == 0)
__CPROVER_ensures((wv_bg < 64 && 3 * wv_bg < (unsigned)len && wv_bj < 4) ==>
                  base64_out[4 * wv_bg + wv_bj] == spec_b64_enc_char(hex_in + 3 * wv_bg, len - 3 * (int)wv_bg, wv_bj));

#define WV_DECLEN(s, len) (3 * ((len) / 4) - spec_b64_npad(s, len))
bool base64_to_hex(const u8_t *base64_in, int len, u8_t *hex_out)
#ifndef WV_B64_DECLENS
#define WV_B64_DECLENS(len) ((len) == 24 || (len) == 4 || (len) == 8 || (len) == 0)   /* bounded stand-in: the lengths explored for the decoder */
#endif
__CPROVER_requires(WV_B64_DECLENS(len) && __CPROVER_is_fresh(base64_in, len) && spec_b64_wellformed(base64_in, len, 24) &&
                   __CPROVER_is_fresh(hex_out, WV_DECLEN(base64_in, len)))
__CPROVER_assigns(__CPROVER_object_whole(hex_out))
__CPROVER_ensures(__CPROVER_return_value)
__CPROVER_ensures((wv_bg < 64 && wv_bj < 3 && (int)(3 * wv_bg + wv_bj) < WV_DECLEN(base64_in, len)) ==>
                  hex_out[3 * wv_bg + wv_bj] == spec_b64_dec_byte(base64_in + 4 * wv_bg, wv_bj));

/* the key validator accepts exactly the 24-symbol encodings of 16-byte values */
bool is_valid_b64(const u8_t *base64_in, int len)
__CPROVER_requires(__CPROVER_is_fresh(base64_in, 24))
__CPROVER_assigns()
__CPROVER_ensures(__CPROVER_return_value == (len == 24 && spec_b64_is_key_string(base64_in)));

static u8_t *getArgsKey(const char *arg)
__CPROVER_requires(__CPROVER_is_fresh(arg, 25) && spec_b64_is_key_string((const unsigned char *)arg))
__CPROVER_assigns()
__CPROVER_ensures(__CPROVER_is_fresh(__CPROVER_return_value, 16))
__CPROVER_ensures((wv_bg < 64 && wv_bj < 3 && 3 * wv_bg + wv_bj < 16) ==>
                  __CPROVER_return_value[3 * wv_bg + wv_bj] == spec_b64_dec_byte((const unsigned char *)arg + 4 * wv_bg, wv_bj));
#endif

"""Preprocess a /repo translation unit, blank the WV_* markers, run clang's JSON AST dump and keep
only the declarations that come from /repo files.  Used by extract.py."""
import json, os, re, subprocess, bisect

INC_DIRS = ['kernel', 'kernel/hash', 'kernel/multi_aes', 'kernel/multi_aes/aes', 'valget', 'valget/base64']
MARK_RE = re.compile(rb'__WV_(CONTRACT|LOOP|ASSERT|GHOST|CUT)__\s*\(')


class ExtractionBreak(Exception):
    pass


class TU:
    def __init__(self, repo, rel, workdir, keep_json=False):
        self.repo = os.path.realpath(repo)
        self.rel = rel
        base = rel.replace('/', '_')
        self.ii = os.path.join(workdir, base + '.ii')
        gen = os.path.join(workdir, 'generated')
        os.makedirs(gen, exist_ok=True)
        cfg = os.path.join(gen, 'config.h')
        if not os.path.exists(cfg):
            with open(cfg, 'w') as f:
                f.write('#pragma once\n#define V_BUILD_TIME "wv"\n#define PROJECT_VERSION_MAJOR 0\n'
                        '#define PROJECT_VERSION_MINOR 0\n#define PROJECT_VERSION_PATCH 0\n#define PROJECT_VERSION "v0"\n')
        cmd = ['clang++', '-std=c++17', '-E', '-DWENCRY_VERIF', '-DOPT_ON'] + \
              ['-I' + os.path.join(self.repo, d) for d in INC_DIRS] + ['-I' + gen, os.path.join(self.repo, rel), '-o', self.ii]
        r = subprocess.run(cmd, stderr=subprocess.PIPE)
        if r.returncode != 0:
            raise ExtractionBreak('preprocessing %s failed: %s' % (rel, r.stderr.decode()[-400:]))
        self.src = open(self.ii, 'rb').read()
        self._linemap()
        self.markers = []
        self._blank_markers()
        blanked = self.ii + '.blank.ii'
        with open(blanked, 'wb') as f:
            f.write(self.bsrc)
        out = subprocess.run(['clang++', '-std=c++17', '-fsyntax-only', '-Wno-everything', '-Xclang', '-ast-dump=json', blanked],
                             stdout=subprocess.PIPE, stderr=subprocess.PIPE)
        if out.returncode != 0:
            raise ExtractionBreak('clang rejected %s (annotations blanked): %s' % (rel, out.stderr.decode()[-600:]))
        self.ast = self._load_repo_part(out.stdout.decode())
        del out
        os.unlink(blanked)
        self.byid = {}
        self.parent = {}
        self._index(self.ast, None)
        self.emitted = set()

    # ---- line markers: offset -> (file, line)
    def _linemap(self):
        self.lm_off = []
        self.lm_val = []
        pos = 0
        cur = (self.ii, 1)
        for ln in self.src.split(b'\n'):
            m = re.match(rb'# (\d+) "([^"]*)"', ln)
            if m:
                cur = (m.group(2).decode(), int(m.group(1)) - 1)
                self.lm_off.append(pos + len(ln) + 1)
                self.lm_val.append((cur[0], cur[1] + 1, pos + len(ln) + 1))
            pos += len(ln) + 1

    def where(self, off):
        i = bisect.bisect_right(self.lm_off, off) - 1
        if i < 0:
            return ('?', 0)
        f, line0, start = self.lm_val[i]
        return (f, line0 + self.src.count(b'\n', start, off))

    def in_repo(self, off):
        f = self.where(off)[0]
        return f.startswith(self.repo + '/') and '/_build/' not in f

    def _blank_markers(self):
        s = bytearray(self.src)
        n = len(s)
        for m in MARK_RE.finditer(self.src):
            i = m.end()
            depth = 1
            while depth:
                if i >= n:
                    raise ExtractionBreak('unterminated WV_ marker in ' + self.rel)
                c = s[i]
                if c == 0x28:
                    depth += 1
                elif c == 0x29:
                    depth -= 1
                elif c == 0x22:
                    i += 1
                    while s[i] != 0x22:
                        i += 2 if s[i] == 0x5c else 1
                i += 1
            text = bytes(s[m.end():i - 1]).decode()
            self.markers.append((m.start(), i, m.group(1).decode(), text))
            for k in range(m.start(), i):
                if s[k] != 10:
                    s[k] = 32
        self.bsrc = bytes(s)

    def _load_repo_part(self, txt):
        """The dump is pretty-printed with one top-level declaration per '    {' ... '    }' block; parse only the
        blocks whose first source offset lies in a /repo file."""
        keep = []
        offre = re.compile(r'"offset": (\d+)')
        start = txt.find('\n  "inner": [\n')
        if start < 0:
            raise ExtractionBreak('unexpected AST dump layout')
        pos = start + len('\n  "inner": [\n')
        end_marker = '\n    }'
        n = len(txt)
        while pos < n and txt.startswith('    {', pos):
            e = txt.find(end_marker, pos)
            if e < 0:
                break
            e2 = e + len(end_marker)
            block = txt[pos:e2]
            m = offre.search(block)
            if m and '"isImplicit": true' not in block[:400] and self.in_repo(int(m.group(1))):
                keep.append(json.loads(block))
            pos = e2
            if txt.startswith(',\n', pos):
                pos += 2
            else:
                break
        return {'kind': 'TranslationUnitDecl', 'inner': keep}

    def _index(self, n, par):
        if 'id' in n:
            self.byid[n['id']] = n
            self.parent[n['id']] = par
        for c in n.get('inner', []):
            if c:
                self._index(c, n)

    def rng(self, n):
        r = n.get('range', {})
        b = r.get('begin', {})
        e = r.get('end', {})
        b = b.get('expansionLoc', b)
        e = e.get('expansionLoc', e)
        if 'offset' not in b or 'offset' not in e:
            return None
        return b['offset'], e['offset'] + e.get('tokLen', 0)

/* Contracts for kernel/fheader.cpp: class hmac (C08, C05, C06) and class FileHeader (C02, C18, C11). */
#ifndef WV_C_FHEADER_H
#define WV_C_FHEADER_H
#include "hash.h"
/* the proofs are run once per hash type (WV_HTYPE_FIX = 0, 1, 2): constant buffer sizes keep the formulas small */
#ifdef WV_HTYPE_FIX
#define WV_HT_OK(t) ((t) == WV_HTYPE_FIX)
#else
#define WV_HT_OK(t) ((t) <= 2)
#endif
#define WV_HLEN_OF_TYPE(t) ((t) == 0 ? 20 : (t) == 1 ? 16 : 32)
#define WV_HMAC_GHOSTS wv_hl, wv_hl_out, wv_fb_left0, wv_flen0
#define WV_FILE_FRESH(f) (__CPROVER_is_fresh(f, sizeof(wv_FILE)) && WV_FILE_OK(f))

/* hash factory: a fresh hasher object of the class for the type number, NULL for anything else */
HashFactory__HASH_TYPE HashFactory__getType(u8_t type)
__CPROVER_assigns()
__CPROVER_ensures(__CPROVER_return_value == (type == 0 ? SHA1 : type == 1 ? MD5 : type == 2 ? SHA256 : Unknown));

Hashmaster *HashFactory__getHasher(HashFactory *this, HashFactory__HASH_TYPE type)
__CPROVER_assigns()
__CPROVER_ensures((type != SHA1 && type != MD5 && type != SHA256) ==> __CPROVER_return_value == NULL)
__CPROVER_ensures((type == SHA1 || type == MD5 || type == SHA256) ==> (__CPROVER_is_fresh(__CPROVER_return_value, type == SHA1 ? sizeof(sha1hash) : type == MD5 ? sizeof(md5hash) : sizeof(sha256hash)) &&
  WV_TAG_OF(__CPROVER_return_value) == (type == SHA1 ? WV_TAG_sha1hash : type == MD5 ? WV_TAG_md5hash : WV_TAG_sha256hash)));

/* RFC 2104 tag of the bytes from the file position to end of file (structure: in-body assertions and the hash call logs) */
void hmac__getres(hmac *this, u8_t hashtype, u8_t *key, FILE *fp, size_t fsize)
__CPROVER_requires(__CPROVER_is_fresh(this, sizeof(*this)) && WV_HT_OK(hashtype) && __CPROVER_is_fresh(key, 16) && WV_FILE_FRESH(fp))
__CPROVER_requires(wv_g < 64 && wv_gr < WV_HLEN_OF_TYPE(hashtype) && wv_hl_n < (1ull << 50))
__CPROVER_assigns(this->length, this->hmac_res, this->buf, fp->pos, fp->eof, WV_HMAC_GHOSTS)
__CPROVER_ensures(this->length == WV_HLEN_OF_TYPE(hashtype) && __CPROVER_is_fresh(this->hmac_res, WV_HLEN_OF_TYPE(hashtype)) && this->buf == NULL)
__CPROVER_ensures(fp->pos == fp->len && wv_flen0 == __CPROVER_old(fp->len) - __CPROVER_old(fp->pos));

/* tag comparison accepts if and only if every tag byte matches */
bool hmac__cmphmac(hmac *this, u8_t hashtype, u8_t *key, FILE *fp, const u8_t *hmac_out, size_t fsize)
__CPROVER_requires(__CPROVER_is_fresh(this, sizeof(*this)) && WV_HT_OK(hashtype) && __CPROVER_is_fresh(key, 16) && WV_FILE_FRESH(fp) &&
                   __CPROVER_is_fresh(hmac_out, WV_HLEN_OF_TYPE(hashtype)))
__CPROVER_requires(wv_g < 64 && wv_gr < WV_HLEN_OF_TYPE(hashtype) && wv_hl_n < (1ull << 50))
__CPROVER_assigns(this->length, this->hmac_res, this->buf, fp->pos, fp->eof, WV_HMAC_GHOSTS, wv_tagv)
__CPROVER_ensures(this->length == WV_HLEN_OF_TYPE(hashtype) && fp->pos == fp->len && wv_flen0 == __CPROVER_old(fp->len) - __CPROVER_old(fp->pos))
__CPROVER_ensures(__CPROVER_return_value == WV_TAGEQ(hmac_out, WV_HLEN_OF_TYPE(hashtype)));

void hmac__gethmac(hmac *this, u8_t hashtype, u8_t *key, FILE *fp, u8_t *hmac_out, size_t fsize)
__CPROVER_requires(__CPROVER_is_fresh(this, sizeof(*this)) && WV_HT_OK(hashtype) && __CPROVER_is_fresh(key, 16) && WV_FILE_FRESH(fp) &&
                   __CPROVER_is_fresh(hmac_out, WV_HLEN_OF_TYPE(hashtype)))
__CPROVER_requires(wv_g < 64 && wv_gr < WV_HLEN_OF_TYPE(hashtype) && wv_hl_n < (1ull << 50))
__CPROVER_assigns(this->length, this->hmac_res, this->buf, fp->pos, fp->eof, WV_HMAC_GHOSTS, wv_tagv, __CPROVER_object_whole(hmac_out))
__CPROVER_ensures(this->length == WV_HLEN_OF_TYPE(hashtype) && fp->pos == fp->len && hmac_out[wv_gr] == wv_tag[wv_gr]);

/* the tag of [hashMark, EOF) is written with ONE fwrite of exactly `length` bytes at offset writeMark */
void hmac__writeFileHmac(hmac *this, u8_t hashtype, FILE *fp, u8_t *key, u8_t hashMark, u8_t writeMark, size_t fsize)
__CPROVER_requires(__CPROVER_is_fresh(this, sizeof(*this)) && WV_HT_OK(hashtype) && __CPROVER_is_fresh(key, 16) && __CPROVER_is_fresh(fp, sizeof(wv_FILE)) &&
                   fp->open && fp->len < (1ull << 58) && hashMark <= fp->len)
__CPROVER_requires(wv_g < 64 && wv_gr < WV_HLEN_OF_TYPE(hashtype) && wv_hl_n < (1ull << 50) && wv_wcount < (1ull << 60))
__CPROVER_assigns(this->length, this->hmac_res, this->buf, WV_HMAC_GHOSTS, wv_tagv, WV_FILE_WSTATE(fp))
__CPROVER_ensures(this->length == WV_HLEN_OF_TYPE(hashtype) && wv_flen0 == __CPROVER_old(fp->len) - hashMark)
__CPROVER_ensures(fp->nwrites == __CPROVER_old(fp->nwrites) + 1 && fp->last_woff == writeMark && fp->last_wlen == WV_HLEN_OF_TYPE(hashtype))
__CPROVER_ensures(fp->len == ((wv_u64)writeMark + WV_HLEN_OF_TYPE(hashtype) > __CPROVER_old(fp->len) ? (wv_u64)writeMark + WV_HLEN_OF_TYPE(hashtype) : __CPROVER_old(fp->len)))
__CPROVER_ensures((wv_wP >= writeMark && wv_wP < (wv_u64)writeMark + WV_HLEN_OF_TYPE(hashtype)) ?
                  (wv_wbyte == wv_tag[wv_wP - writeMark] && wv_wcount == __CPROVER_old(wv_wcount) + 1) :
                  (wv_wbyte == __CPROVER_old(wv_wbyte) && wv_wcount == __CPROVER_old(wv_wcount)))
__CPROVER_ensures(fp->nbytes == __CPROVER_old(fp->nbytes) + WV_HLEN_OF_TYPE(hashtype) && fp->open);

/* ---------------- FileHeader: reading side (C05, C06, C11, C12) */
#define WV_FH_IN(h) (__CPROVER_is_fresh(h, sizeof(FileHeader)) && __CPROVER_is_fresh((h)->fp, sizeof(wv_FILE)) && WV_FILE_OPEN((h)->fp))
#define WV_FB8(h, k) wv_filebyte((h)->fp->id, k)
#define WV_MAGIC_OK(h) (WV_FB8(h, 0) == 0xC3 && WV_FB8(h, 1) == 0xA5 && WV_FB8(h, 2) == 0xC3 && WV_FB8(h, 3) == 0xA5 && \
  WV_FB8(h, 4) == 0xC3 && WV_FB8(h, 5) == 0xA5 && WV_FB8(h, 6) == 0xC3 && WV_FB8(h, 7) == 0xA5)

bool FileHeader__checkMn(FileHeader *this)
__CPROVER_requires(WV_FH_IN(this))
__CPROVER_assigns(this->fp->pos, this->fp->eof, wv_magic_ok)
__CPROVER_ensures(__CPROVER_return_value == wv_magic_ok && wv_magic_ok == (this->fp->len >= 8 && WV_MAGIC_OK(this)) && this->fp->pos <= 8);

void FileHeader__checkType(FileHeader *this)
__CPROVER_requires(WV_FH_IN(this))
__CPROVER_assigns(this->ctype, this->htype, this->fp->pos, this->fp->eof)
__CPROVER_ensures(this->fp->len >= 10 ==> (this->ctype == WV_FB8(this, 8) && this->htype == WV_FB8(this, 9)))
__CPROVER_ensures(this->fp->pos <= 10);

/* the 64 bytes at offset 10 (tag area): NULL unless all of them are there */
u8_t *FileHeader__getHmac(FileHeader *this, u8_t len)
__CPROVER_requires(WV_FH_IN(this) && len == 64 && wv_gr < 64 && wv_rP == 10 + (unsigned long long)wv_gr)
__CPROVER_assigns(WV_ARR(this->hash), this->fp->pos, this->fp->eof)
__CPROVER_ensures((__CPROVER_return_value == NULL) == (this->fp->len < 74))
__CPROVER_ensures(__CPROVER_return_value != NULL ==> (__CPROVER_return_value == this->hash && this->hash[wv_gr] == WV_FB8(this, 10 + (unsigned long long)wv_gr)));

void FileHeader__getIV_2(FileHeader *this, FILE *fp, u8_t *iv)
__CPROVER_requires(__CPROVER_is_fresh(this, sizeof(*this)) && this->num >= 1 && this->num <= 16 && __CPROVER_is_fresh(fp, sizeof(wv_FILE)) && WV_FILE_OPEN(fp) &&
                   __CPROVER_is_fresh(iv, 320) && wv_gi < 320)
__CPROVER_assigns(fp->pos, fp->eof, __CPROVER_object_whole(iv))
__CPROVER_ensures((wv_rP == 48 + (unsigned long long)wv_gi && fp->len >= 48 + 20ull * this->num && wv_gi < 20u * this->num) ==> iv[wv_gi] == wv_filebyte(fp->id, 48 + (unsigned long long)wv_gi))
__CPROVER_ensures(fp->len >= 48 + 20ull * this->num ==> fp->pos == 48 + 20ull * this->num);

/* ---------------- FileHeader: writing side (C02, C13, C18) */
/* IV table: IV 0 = SHA-1(seed string), IV i = SHA-1(IV i-1) (the chain is asserted in the body through the hash call log) */
void FileHeader__getIV_1(FileHeader *this, const u8_t *r_buf, u8_t *iv)
__CPROVER_requires(__CPROVER_is_fresh(this, sizeof(*this)) && this->num >= 1 && this->num <= 16 && wv_slen < (1ull << 31) &&
                   __CPROVER_is_fresh(r_buf, wv_slen + 1) && r_buf[wv_slen] == 0 && __CPROVER_is_fresh(iv, 320))
__CPROVER_requires(wv_g < 64 && wv_gr < 20 && wv_hl_n < (1ull << 50))
__CPROVER_assigns(__CPROVER_object_whole(iv), wv_hl, wv_hl_out)
__CPROVER_ensures(wv_hl_out == iv + 20 * (this->num - 1))
__CPROVER_ensures(wv_hl_n >= __CPROVER_old(wv_hl_n) && wv_hl_n <= __CPROVER_old(wv_hl_n) + (wv_slen >> 6) + 18);

#define WV_HDR_BYTE(h, iv, o) ((o) < 8 ? (((o) & 1) ? 0xA5 : 0xC3) : (o) == 8 ? (h)->ctype : (o) == 9 ? (h)->htype : (o) < 48 ? 0 : (iv)[(o) - 48])
void FileHeader__getFileHeader(FileHeader *this, u8_t *iv)
__CPROVER_requires(__CPROVER_is_fresh(this, sizeof(*this)) && this->num >= 1 && this->num <= 16 && __CPROVER_is_fresh(this->out, sizeof(wv_FILE)) &&
                   this->out->open && this->out->pos < (1ull << 50) && this->out->len < (1ull << 50) && __CPROVER_is_fresh(iv, 320) && wv_wcount < (1ull << 60))
__CPROVER_assigns(WV_FILE_WSTATE(this->out))
__CPROVER_ensures(this->out->pos == __CPROVER_old(this->out->pos) + 48 + 20ull * this->num && this->out->nwrites == __CPROVER_old(this->out->nwrites) + 4 + this->num)
__CPROVER_ensures(this->out->nbytes == __CPROVER_old(this->out->nbytes) + 48 + 20ull * this->num && this->out->open)
__CPROVER_ensures(this->out->len == (this->out->pos > __CPROVER_old(this->out->len) ? this->out->pos : __CPROVER_old(this->out->len)))
/* every header byte is written exactly once, with the documented value (magic, modes, 38 zero bytes, the IV table) */
__CPROVER_ensures((wv_wP >= __CPROVER_old(this->out->pos) && wv_wP < __CPROVER_old(this->out->pos) + 48 + 20ull * this->num) ?
                  (wv_wcount == __CPROVER_old(wv_wcount) + 1 && wv_wbyte == WV_HDR_BYTE(this, iv, wv_wP - __CPROVER_old(this->out->pos))) :
                  (wv_wcount == __CPROVER_old(wv_wcount) && wv_wbyte == __CPROVER_old(wv_wbyte)));
#endif

#!/usr/bin/env python3
"""Extract all translation units of /repo and merge them into one C file (wencry.c) + metadata (wencry.json)."""
import concurrent.futures, hashlib, json, os, re, subprocess, sys, time

HERE = os.path.dirname(os.path.abspath(__file__))
TUS = ['kernel/multi_aes/aes/aes.cpp', 'kernel/multi_aes/aes/aesmode.cpp', 'kernel/hash/hashbuffer.cpp',
       'kernel/hash/hashmaster.cpp', 'kernel/hash/sha1.cpp', 'kernel/hash/md5.cpp', 'kernel/hash/sha256.cpp',
       'kernel/multi_aes/multi_buffergroup.cpp', 'kernel/multi_aes/multicry.cpp', 'kernel/fheader.cpp',
       'kernel/cry.cpp', 'valget/base64/base64.cpp', 'valget/getopts.cpp', 'main.cpp']


CLI_TUS = ('valget/getopts.cpp', 'main.cpp')   # command-line layer: compiled in only for the C17 obligations (its string tables trip CBMC's object_whole havoc)


def run_one(args):
    repo, rel, workdir = args
    r = subprocess.run([sys.executable, os.path.join(HERE, 'extract.py'), repo, rel, workdir],
                       stdout=subprocess.PIPE, stderr=subprocess.STDOUT)
    return rel, r.returncode, r.stdout.decode()


def norm(s):
    return ' '.join(s.split())


def build(repo, workdir, tus=TUS, jobs=14):
    os.makedirs(workdir, exist_ok=True)
    t0 = time.time()
    with concurrent.futures.ThreadPoolExecutor(max_workers=jobs) as ex:
        results = list(ex.map(run_one, [(repo, t, workdir) for t in tus]))
    res = {}
    fatal = {}
    for rel, rc, out in results:
        p = os.path.join(workdir, rel.replace('/', '_') + '.json')
        if not os.path.exists(p):
            fatal[rel] = out[-800:]
            continue
        d = json.load(open(p))
        if 'fatal' in d:
            fatal[rel] = d['fatal']
        else:
            res[rel] = d
    meta = {'fatal': fatal, 'funcs': {}, 'breaks': {}, 'skipped': {}, 'drops': [], 'rules': {}, 'lost_markers': [],
            'n_markers': 0, 'records': {}, 'conflicts': [], 'extract_s': round(time.time() - t0, 1)}
    types, seen_t = [], {}
    globs, seen_g = [], {}
    funcs = {}
    helpers = {}
    fwd = []
    for rel in tus:
        d = res.get(rel)
        if not d:
            continue
        for k, t in d['types']:
            if k in seen_t:
                if norm(seen_t[k]) != norm(t):
                    meta['conflicts'].append('type %s differs between translation units' % k)
                continue
            seen_t[k] = t
            types.append((k, t))
        for k, t in d['globals']:
            if k in seen_g:
                if norm(seen_g[k]) != norm(t):
                    meta['conflicts'].append('global %s differs between translation units' % k)
                continue
            seen_g[k] = t
            if rel in CLI_TUS:
                t = '#ifndef WV_NO_CLI\n' + t + '\n#endif'
            globs.append((k, t))
        for name, f in d['funcs'].items():
            if name in funcs:
                if norm(funcs[name]['body']) != norm(f['body']):
                    meta['conflicts'].append('function %s differs between translation units' % name)
                continue
            funcs[name] = f
        for name, why in d['breaks'].items():
            if name not in funcs:
                meta['breaks'].setdefault(name, why)
        for name, why in d['skipped'].items():
            meta['skipped'].setdefault(name, why)
        helpers.update(d['helpers'])
        meta['drops'] += [x for x in d['drops'] if x not in meta['drops']]
        for k, v in d['rules'].items():
            meta['rules'][k] = meta['rules'].get(k, 0) + v
        meta['lost_markers'] += d['lost_markers']
        meta['n_markers'] += d['n_markers']
        for q, r in d['records'].items():
            meta['records'].setdefault(q, r)
    for name in list(meta['breaks']):
        if name in funcs:
            del meta['breaks'][name]
    # ---- polymorphism: tags and dispatchers
    recs = meta['records']
    poly = [q for q, r in recs.items() if r['polymorphic']]
    tags = ['WV_TAG_none'] + ['WV_TAG_' + q for q in poly]

    def chain(q):
        out = []
        while q:
            out.append(q)
            q = recs[q]['base']
        return out

    dispatch = []
    for q, r in recs.items():
        for v in r['virtuals']:
            if not v['pure']:
                continue
            # declared pure here: dispatcher over the concrete subclasses
            cases = []
            for s, sr in recs.items():
                if s == q or q not in chain(s) or sr['abstract']:
                    continue
                # abstract intermediates are skipped; find the final overrider along s's chain
                target = None
                for c in chain(s):
                    for vv in recs[c]['virtuals']:
                        if vv['name'] == v['name'] and vv['ptypes'] == v['ptypes'] and not vv['pure']:
                            target = (c, vv)
                            break
                    if target:
                        break
                if target and target[1]['mangled'] in funcs:
                    cases.append((s, target))
            m = re.match(r'^(.*?)\s+(\w+)\((.*)\)$', v['sig'])
            rt, name, params = m.group(1), m.group(2), m.group(3)
            pn = [p.strip().split()[-1].lstrip('*').split('[')[0] for p in params.split(',')]
            body = ['{', '  switch (((%s *)this)->_wv_tag)' % chain(q)[-1] if False else '  switch (WV_TAG_OF(this))', '  {']
            for s, (c, vv) in cases:
                call = '%s((%s *)this%s)' % (vv['mangled'], c, ''.join(', ' + a for a in pn[1:]))
                body.append('  case WV_TAG_%s: %s%s;%s' % (s, 'return ' if rt != 'void' else '', call, '' if rt != 'void' else ' return;'))
            body.append('  default: __CPROVER_assert(0, "WV virtual call on an object with an unknown dynamic type"); __CPROVER_assume(0);')
            body.append('  }')
            if rt != 'void':
                body.append('  return (%s)0;' % rt)
            body.append('}')
            dispatch.append((v['mangled'], v['sig'], '\n'.join(body)))
    # ---- write
    out = []
    out.append('/* generated by /verif/wv/build.py from the working tree of the repository -- do not edit */')
    out.append('#include "wv_env.h"')
    out.append('enum { %s };' % ', '.join(tags))
    out.append('#define WV_TAG_OF(p) (*(int *)(p))')
    for k, t in types:
        if k.startswith('record:'):
            first = t.split('\n', 1)[0]
            out.append(first)
    for k, t in types:
        if k.startswith('record:'):
            t = t.split('\n', 1)[1]
        out.append('/* %s */\n%s' % (k, t))
    for k, t in globs:
        out.append(t)
    out.append('#include "wv_spec.h"')
    for name, f in funcs.items():
        out.append(f['sig'] + ';')
    for name, sig, body in dispatch:
        if name not in funcs:
            out.append(sig + ';')
    out.append('#ifdef WV_CONTRACTS\n#include WV_CONTRACTS\n#endif')
    for h in helpers.values():
        out.append(h)
    for name, sig, body in dispatch:
        if name not in funcs:
            out.append('/* R5 dispatcher */\n' + sig + '\n' + body)
            meta['funcs'][name] = {'file': '(generated dispatcher)', 'line': 0, 'sha256': '', 'generated': True, 'sig': sig}
    for name, f in funcs.items():
        txt = '/* %s:%d %s */\n%s\n%s\n%s' % (f['file'], f['line'], f['sha256'], f['sig'], f['contract'], f['body'])
        if f['file'] in CLI_TUS:
            txt = '#ifndef WV_NO_CLI\n' + txt + '\n#endif'
        out.append(txt)
        meta['funcs'][name] = {'file': f['file'], 'line': f['line'], 'sha256': f['sha256'], 'generated': bool(f.get('generated')), 'sig': f['sig'],
                               'in_place_contract': bool(f['contract']),
                               'gen_sha': hashlib.sha256((f['sig'] + '\n' + f['contract'] + '\n' + f['body']).encode()).hexdigest()}
    # everything that is not the body of a repository function: types, globals, prototypes, generated helpers and dispatchers
    decl = [x for x in out if not re.match(r'(#ifndef WV_NO_CLI\n)?/\* [\w/.]+:\d+ [0-9a-f]+ \*/\n', x)]
    meta['decl_sha256'] = hashlib.sha256('\n\n'.join(decl).encode()).hexdigest()
    text = '\n\n'.join(out) + '\n'
    # linemarkers the preprocessor leaves after a multi-line macro invocation would re-map every later source location
    text = re.sub(r'(?m)^# \d+ "[^"\n]*"[ \d]*\n', '', text)
    cpath = os.path.join(workdir, 'wencry.c')
    open(cpath, 'w').write(text)
    meta['c_sha256'] = hashlib.sha256(text.encode()).hexdigest()
    json.dump(meta, open(os.path.join(workdir, 'wencry.json'), 'w'), indent=1)
    return meta


if __name__ == '__main__':
    repo, workdir = sys.argv[1:3]
    m = build(repo, workdir)
    print('functions', len(m['funcs']), 'breaks', len(m['breaks']), 'skipped', len(m['skipped']), 'drops', len(m['drops']),
          'markers', m['n_markers'], 'lost', len(m['lost_markers']), 'conflicts', len(m['conflicts']), 'time', m['extract_s'])
    for k, v in m['fatal'].items():
        print('FATAL', k, v)
    for k, v in m['breaks'].items():
        print('BREAK', k, ':', v)
    for c in m['conflicts']:
        print('CONFLICT', c)

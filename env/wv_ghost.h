/* Ghost state referenced by the in-place WV_GHOST / WV_ASSERT / WV_LOOP annotations in /repo (DESIGN.md 2.3, 4 P-C, P-F).
   Ghost variables are ordinary C globals of the verification build; they exist only in the extracted text. */
#ifndef WV_GHOST_H
#define WV_GHOST_H
#include "hash_spec.h"
/* --- hashes: log of compression-function calls (P-C) observed at one harness-chosen call number and byte index (P-F) */
unsigned long long wv_hl_n;       /* number of compression calls so far */
unsigned long long wv_hl_watch;   /* the call whose block is observed */
unsigned wv_g;                    /* observed byte index inside a 64-byte block */
unsigned wv_gw;                   /* observed word index inside a message schedule */
unsigned char wv_hl_wbyte;        /* byte wv_g of the block given to call wv_hl_watch */
const unsigned char *wv_hl_wptr;   /* pointer given to call wv_hl_watch */
const unsigned char *wv_hl_fptr;   /* arguments of the last final-block call: tail pointer, tail length, bit count before */
unsigned wv_hl_fr;
unsigned long long wv_hl_ftotal;
unsigned wv_rounds;               /* rounds executed by the current compression call */
spec_u32 wv_snap_h[8], wv_snap_t[8];
#define WV_ARR(a) __CPROVER_object_upto(a, sizeof(a))
#define WV_HGHOSTS wv_hl_n, wv_hl_wbyte, wv_hl_wptr, wv_hl_fptr, wv_hl_fr, wv_hl_ftotal, wv_rounds, WV_ARR(wv_snap_h), WV_ARR(wv_snap_t)
#define WV_HLOG_BLOCK(p) { if (wv_hl_n == wv_hl_watch) { wv_hl_wbyte = (p)[wv_g]; wv_hl_wptr = (p); } wv_hl_n++; }
#define WV_HLOG_FINAL(p, r, total) { wv_hl_fptr = (p); wv_hl_fr = (r); wv_hl_ftotal = (total); }
#define WV_MD5_EQ(m, a, b, c, d) ((m).v[0] == (a) && (m).v[1] == (b) && (m).v[2] == (c) && (m).v[3] == (d))
#define WV_SNAP_H(a, n) { for (int wv_k = 0; wv_k < (n); ++wv_k) wv_snap_h[wv_k] = (a)[wv_k]; }
#define WV_SNAP_T(a, n) { for (int wv_k = 0; wv_k < (n); ++wv_k) wv_snap_t[wv_k] = (a)[wv_k]; }
/* --- hashing buffer (filebuffer64) as an abstract stream of units: [64-byte prefix block] 64, 64, ..., 64, short (< 64) */
unsigned long long wv_fb_left0;   /* bytes left in the stream when getFileHash started */
#define WV_FB(p) ((filebuffer64 *)(p))
#define WV_FILE_STATE(f) (f)->pos, (f)->eof
#define WV_FB_STATE(fb) WV_ARR((fb)->b), (fb)->has_extra, (fb)->total, (fb)->now, (fb)->tail, (fb)->fp->pos, (fb)->fp->eof
/* bytes the stream will still deliver: prefix block, buffered units from `now` on, the buffered tail, the rest of the file */
#define WV_FB_LEFT(fb) (((fb)->has_extra ? 64ull : 0ull) + ((fb)->now <= (fb)->total ? 64ull * ((fb)->total - (fb)->now) + (fb)->tail : 0ull) + ((fb)->fp->len - (fb)->fp->pos))
#define WV_FB_DONE(fb) ((fb)->now > (fb)->total)
/* representation invariant: a buffer that is not full means the file is exhausted */
#define WV_FB_OK(fb) ((fb)->fp->open && (fb)->fp->pos <= (fb)->fp->len && (fb)->fp->len < (1ull << 58) && (fb)->total <= filebuffer64__HBUF_SZ && (fb)->tail < 64 && \
  (fb)->now <= (fb)->total + 1 && (fb)->now <= filebuffer64__HBUF_SZ && ((fb)->total == filebuffer64__HBUF_SZ ==> (fb)->tail == 0) && \
  (((fb)->total < filebuffer64__HBUF_SZ) ==> (fb)->fp->pos == (fb)->fp->len))
#endif

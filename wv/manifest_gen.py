#!/usr/bin/env python3
"""Writes /verif/MANIFEST.json from the table below (kept as code so that the claims and their wording are reviewed in one place)."""
import json, os, subprocess

VERIF = os.path.dirname(os.path.dirname(os.path.abspath(__file__)))
TECH = 'contract-based deductive verification: CBMC code contracts (goto-instrument --dfcc, per function, callees by contract) on C extracted mechanically from /repo each run'
BASE = ('CBMC 6.11 (bit-precise C semantics), kissat / MiniSat back ends; the extraction rules of wv/extract.py (C++ -> C, DESIGN.md 2.2, 13.2); '
        'the specification library /verif/spec, validated against published vectors on every run; ')

# property -> (category, text, design_ref, level_note)
CLAIMS = {
    'C09': ('proof',
            'Every function of aes.cpp is under a CBMC contract: the seven step functions equal the FIPS-197 transformations (S-box as x^254 + affine map, '
            'MixColumns by xtime) for all 2^128 states; rounds, key-schedule step/chain, constructors and the two block functions are proved against the '
            'composition of those (opaque) functions, including the property statement itself (encrypt == Cipher(in, KeyExpansion(key)), decrypt(encrypt(x)) == x) '
            'as a lemma over the contracts. Complete: all loops are constant and fully unwound with unwinding assertions.',
            'DESIGN.md 5.1, 13', 'opacity of spec functions is definitional; lemma instances are instances of lemmas discharged in the same run.'),
    'C10': ('proof',
            'All eight stream classes, the CTR increment (128-bit big-endian with carries), constructors and the factory are under contract against the SP 800-38A '
            'recurrences written over the (opaque) block cipher: one call = one step of the recurrence on (iv, block); decryptor-inverts-encryptor is a lemma over '
            'those contracts for every key, IV and block, hence by induction on the stream (paper step) for every sequence.',
            'DESIGN.md 5.2, 13', 'C09 imported through the block-function contracts; the induction over the number of blocks is the standard recurrence argument, on paper.'),
    'C07': ('proof',
            'Compression functions of SHA-1, MD5 and SHA-256 equal the FIPS 180-4 / RFC 1321 round functions (cut points per round, 64-step MD5 by WV_CUT), padding/final '
            'block (both branches of the 56-byte threshold, 64-bit length field), reset/getres, the in-memory driver getStringHash and the streamed driver getFileHash with '
            'the refill logic of filebuffer64 (proof-build window of 1..3 blocks) are under contract for symbolic 64-bit lengths; in-place loop contracts close every loop.',
            'DESIGN.md 5.3, 13', 'Merkle-Damgard composition of the proved pieces (call log: blocks in order, then the final block) is checked through ghost call logs per '
            'observed index, the chaining-value induction is on paper; hashing window sizes are proof-build constants (DESIGN.md 2.4).'),
    'C16': ('proof',
            'hex_to_base64 against the RFC 4648 encoder specification (bounded stand-in for the general length: the program only encodes 16 bytes; labelled bounded), '
            'base64_to_hex inverse on the 24-symbol strings the program decodes, is_valid_b64 accepts exactly the 24-character encodings ending in "==" with 22 alphabet '
            'symbols, getArgsKey writes exactly 16 bytes into the key buffer.',
            'DESIGN.md 5.13, 13', 'glibc isalnum modelled as the C-locale table; general-length encode/decode obligations are bounded stand-ins and not counted as proved.'),
    'C08': ('proof',
            'hmac::getres / gethmac / cmphmac / writeFileHmac under contract per hash mode: RFC 2104 structure (key block K xor ipad, inner hash over the file bytes from the '
            'current position to EOF through the proved streamed hasher, outer hash over K xor opad || inner) as in-place assertions over the ghost hash-call log; cmphmac '
            'returns true iff every tag byte matches (loop contract); writeFileHmac writes the tag at offset 10 once, and execute_encrypt zero-fills 10..47 before.',
            'DESIGN.md 5.4, 13', 'C07 imported through the hash contracts (hash mode fixed per obligation group: 0, 1, 2).'),
    'C02': ('proof',
            'execute_encrypt under contract: header bytes (magic, mode bytes, zero fill to 48), IV table by chained SHA-1 of the seed (getIV call-log assertions), write '
            'order header -> body -> tag, output length 48 + 20T + 16(floor(n/16)+1), input only read.  Body: load_buffer (chunking, PKCS#7 pad bytes), the worker '
            '(block i of a chunk by stream object i, once, in order), export_buffer, the I/O loop run_buffer with exact byte accounting under the workers\' rely, and '
            'run_multicry (summary of one pipeline run) are each under contract; stream objects are of the class for (direction, mode) with the user key.',
            'DESIGN.md 5.5, 13.7', 'thread-modular composition (rely/guarantee, DESIGN.md 5.7) and "chunk k goes to stream k mod T" are argued on paper from the per-thread '
            'contracts; chunk size is a proof-build constant (2 blocks); T in {1, 2} quick, more in thorough; ciphertext content equality with the NIST mode is C10 + the worker '
            'contract, not one end-to-end obligation; the recorded C18 finding (stream IVs) is outside this property\'s statement of the key but inside "continuous streams".'),
    'C01': ('other',
            'Round trip as a chain of machine-checked contracts: decryptor inverts encryptor per block (C10 lemma), unpadding inverts padding (load_buffer / export_buffer: '
            'pad length 16 - (n mod 16) written, the same length removed, bounded by the block size), decryption starts reading at 48 + 20T with the file\'s modes and IVs, '
            'both pipeline runs deal chunks identically (same code, same T), end-of-input detection on both sides (fixed defect D3).  The composition into '
            'decrypt(encrypt(P)) == P is a paper argument over these contracts.',
            'DESIGN.md 5.6, 13.7', 'composition on paper; thread-modular soundness on paper; chunk size abstracted to 2 blocks; T in {1, 2} quick.'),
    'C03': ('other',
            'Schedule independence through ownership: every shared field is written only by the owner of the buffer\'s state token (EMPTY/UPDATING: I/O thread, READY: worker), '
            'proved per function against the rely of the other side (folded into the contract of cv.wait): the worker transforms each handed-out block exactly once, in order, '
            'before asking for the next, hands back only a fully consumed buffer; the I/O thread flushes a buffer exactly once after hand-back and before refill, output is '
            'appended with every offset written once (run_buffer loop contract).  Determinism of the output then follows on paper (no shared write without ownership).',
            'DESIGN.md 5.7, 13.7', 'CBMC has no thread semantics here: the concurrency argument is rely/guarantee with sequential proofs per thread; the soundness of that '
            'composition is a paper argument; mutexes / condition variables are ghost models (DESIGN.md 2.2 R12/R13).'),
    'C14': ('other',
            'The hand-over protocol as contracts: get_entry / runcry only while the worker owns the buffer (READY) - preconditions of the callees checked at every call site of '
            'the worker loop and require_buffer_entry; load/export only while the I/O thread owns it (EMPTY/UPDATING) - preconditions checked at every turn of run_buffer; '
            'worker i is started on buffer i with stream i (run_multicry); blocks of one buffer are handed out in order (ghost hand-over log).',
            'DESIGN.md 5.7, 13.7', 'as C03.'),
    'C04': ('other',
            'Termination is a liveness property; what is decided are the safety lemmas it rests on (DESIGN.md 5.8 (1)-(7), 13.10 (8)): wait loops leave only with the awaited predicate re-tested under the lock; the state of a buffer is written only while its mutex is held and every change is followed by notify_all (no lost wake-up); a worker is told "no more blocks" only after its buffer was retired; turn_iter terminates within `size` steps and returns false iff no buffer is live; the I/O loop has a decreasing measure (input left, live buffers); every buffer has a worker thread and every started worker is joined.  "Each wait eventually returns" under fair scheduling is argued on paper (Appendix C).',
            'DESIGN.md 5.8, Appendix C, 13.7, 13.10', 'liveness itself is outside what code contracts decide; no schedule is enumerated.'),
    'C05': ('proof',
            'verify() under contract: verdict 0 iff magic, known mode numbers, length >= 74 and every stored tag byte equals the HMAC (C08) of bytes [48, EOF) under the file\'s '
            'hash mode; execute_decrypt returns the same verdict and writes output only after verdict 0.  Lemma over the contract of verify (two files differing in one header '
            'byte): magic and tag bytes are bound by an accepting verdict.  RECORDED FINDING D7: the cipher-mode byte (offset 8) is not bound - printed as KNOWN-FINDING.',
            'DESIGN.md 5.9, 13.5', 'collision / second-preimage resistance of HMAC is a cryptographic assumption (bytes from 48 on, hash-mode byte); tag bytes 16..31 of SHA-256 '
            'tags are not observed by the lemma\'s ghost index.'),
    'C06': ('proof',
            'Same gate as C05 from the key\'s side: the tag compared is the HMAC under the user\'s key (getres key-block assertions); with a verdict other than 0 execute_decrypt '
            'and execute_verify write nothing (frame: no write to the output file before the verdict).',
            'DESIGN.md 5.9', '"a different key gives a different tag" is the cryptographic assumption; what is proved is that the verdict depends on the key through HMAC only and that nothing is written on failure.'),
    'C11': ('proof',
            'verify / execute_verify / execute_decrypt for an arbitrary input file object (symbolic 64-bit length and content): CBMC\'s memory-safety obligations (bounds, pointers, '
            'overflow) on every function under contract, verdict as in C05, no output on failure, output of a successful decryption bounded by the body length '
            '(export_buffer: pad length bounded by the block size; run_buffer: bytes written <= bytes read).',
            'DESIGN.md 5.10, 13.5', 'FILE objects are ghost models (length, position, EOF flag, content as an uninterpreted function of offset); fixed defects D5, D6 are recorded in known_findings.json.'),
    'C12': ('proof',
            'execute_decrypt\'s verdict is verify()\'s verdict (contract: success iff verify() == 0, no other failing exit); execute_verify writes no file (frame) and the input '
            'file object is only read (position / EOF flag are the only assigned fields) in all three operations.',
            'DESIGN.md 5.9', 'as C05.'),
    'C13': ('proof',
            'Write order of execute_encrypt as postconditions over the ghost write log: the tag area 10..47 is written as zeros with the header, the body is appended, and the tag '
            'is the last write; a prefix of that write sequence therefore has a zero tag or is the complete file.  With C05 (zero tag accepted only if HMAC == 0...0) a partial '
            'file is rejected.',
            'DESIGN.md 5.11', 'crash = prefix of the write sequence at write granularity (a torn single write is a prefix of bytes of that write; for the tag write this leaves a '
            'partly zero tag); "the all-zero / partly-zero tag is not the HMAC" is the cryptographic assumption.'),
    'C15': ('proof',
            'Process-global state is the buffergroup singleton and bufferctrl::live_num: execute_encrypt / execute_decrypt / execute_verify are proved to start from and return '
            'to the fresh state (instance == NULL, live_num == 0, mutex free) on every path; get_instance / set_buffergroup / del_instance under contract (fresh, all-EMPTY '
            'buffers, nothing carried over).',
            'DESIGN.md 5.12', 'the command-line layer (getopt state) is outside the extractor\'s reach and not covered (see C17).'),
    'C18': ('proof',
            'IV table: getIV under contract (IV 0 = SHA-1(seed), IV i = SHA-1 of IV i-1: call-log assertions), written to offset 48.  Stream start: in-place assertions in '
            'prepare_AES discharged in the context of execute_encrypt / execute_decrypt.  RECORDED FINDING D10: for T >= 2 every stream is started from IV 0 - printed as '
            'KNOWN-FINDING; the envelope "IV i or IV 0, nothing else" is discharged.',
            'DESIGN.md 5.15, 13.5', 'T in {1, 2} quick (T = 1 has one stream and no finding).'),
}
NOTES = 'exit 0 = all obligations discharged; exit 1 = VIOLATION line; exit 2 = undecided (timeout, tool error, extraction break, vacuity guard, unmodelled library function), never a violation; KNOWN-FINDING lines (exit 0) for the findings listed in /verif/known_findings.json (D7 for C05, D10 for C18); fix: commits in /repo: ccd8522, 9352591, 3d8994d, 75eda31, e211882, 03b4061, 426ab41; results of discharged groups are cached under /verif/out/cache (function-level key, DESIGN.md 13.9; WV_NO_CACHE=1 disables)'
NOT_APPLICABLE = {
    'C17': 'the command-line layer (valget/getopts.cpp parseOpts, main.cpp) cannot be brought within the verifier\'s reach: the extractor breaks on std::filesystem / std::string '
           'typed declarations and on constructor expressions in main (reported as extraction breaks in every evidence file), CBMC\'s C++ front end rejects the sources, and a '
           'hand-written C look-alike would be a model, not the code; a bounded stand-in would need the same extraction.  Not claimed (DESIGN.md 5.14, 13.8).',
}


def main():
    old = json.load(open(os.path.join(VERIF, 'MANIFEST.json')))
    commits = subprocess.run(['git', '-C', '/repo', 'log', '--format=%h %s', '02d63b7..HEAD'], capture_output=True, text=True).stdout.strip().split('\n')
    hooks = [c.split()[0] for c in reversed(commits) if not c.split(' ', 1)[1].startswith('fix:')]
    m = {'version': 1, 'setup_cmd': 'true', 'hooks': dict(old['hooks'], source_commits=hooks),
         'engines': [dict(old['engines'][0], serves_properties=sorted(CLAIMS))],
         'checks': [], 'not_applicable': [{'property_id': k, 'reason': v} for k, v in sorted(NOT_APPLICABLE.items())],
         'notes': NOTES}
    for pid in sorted(CLAIMS):
        cat, text, ref, note = CLAIMS[pid]
        m['checks'].append({'property_id': pid, 'quick_cmd': 'bin/check %s --tier quick' % pid, 'thorough_cmd': 'bin/check %s --tier thorough' % pid,
                            'evidence_file': '/verif/evidence/%s.json' % pid, 'replay_cmd_template': 'cat {path}', 'engine': 'cbmc-contracts',
                            'level_claimed': {'category': cat, 'text': text, 'design_ref': ref}, 'level_note': BASE + note, 'technique': TECH})
    json.dump(m, open(os.path.join(VERIF, 'MANIFEST.json'), 'w'), indent=1)
    print('claimed', len(m['checks']), 'not applicable', len(m['not_applicable']), 'hook commits', len(hooks))


if __name__ == '__main__':
    main()

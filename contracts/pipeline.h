/* Contracts for the chunk pipeline (kernel/multi_aes/multi_buffergroup.cpp, multicry.cpp): C01, C03, C04, C13, C14.
   Part 1 (this section): the sequential summary of one pipeline run, as used by execute_encrypt / execute_decrypt. */
#ifndef WV_C_PIPELINE_H
#define WV_C_PIPELINE_H
#include "cry.h"
#define WV_BG (buffergroup__instance)
/* bytes the pipeline will read: from the input position to the end of the input */
#define WV_PIPE_N_OLD (__CPROVER_old(WV_BG->fin->pos) <= __CPROVER_old(WV_BG->fin->len) ? __CPROVER_old(WV_BG->fin->len) - __CPROVER_old(WV_BG->fin->pos) : 0ull)
#define WV_ENC_OUT_OLD (16ull * ((WV_PIPE_N_OLD) / 16 + 1))      /* PKCS#7: always 1..16 pad bytes */

void multicry_master__run_multicry(multicry_master *this, Aesmode **mode)
__CPROVER_requires(__CPROVER_is_fresh(this, sizeof(*this)) && this->THREADS_NUM >= 1 && this->THREADS_NUM <= 16 && WV_T_IS(this->THREADS_NUM))
__CPROVER_requires(__CPROVER_is_fresh(WV_BG, sizeof(buffergroup)) && __CPROVER_is_fresh(WV_BG->buflst, sizeof(iobuffer) * WV_TSZ(this->THREADS_NUM)) &&
                   __CPROVER_is_fresh(WV_BG->ctrl, sizeof(bufferctrl) * WV_TSZ(this->THREADS_NUM)) && __CPROVER_is_fresh(WV_BG->fin, sizeof(wv_FILE)) &&
                   __CPROVER_is_fresh(WV_BG->fout, sizeof(wv_FILE)))
__CPROVER_requires(WV_BG->size == this->THREADS_NUM && WV_BG->turn == 0 && !WV_BG->over && WV_BG_EMPTY(WV_BG) && bufferctrl__live_num == this->THREADS_NUM)
__CPROVER_requires(WV_FILE_OPEN(WV_BG->fin) && WV_BG->fout->open && WV_BG->fout->pos == WV_BG->fout->len && WV_BG->fout->len < (1ull << 50) && wv_wcount < (1ull << 60))
__CPROVER_assigns(WV_BG->turn, WV_BG->over, __CPROVER_object_whole(WV_BG->buflst), __CPROVER_object_whole(WV_BG->ctrl), bufferctrl__live_num,
                  WV_BG->fin->pos, WV_BG->fin->eof, WV_FILE_WSTATE(WV_BG->fout), WV_ARR(this->threads))
/* everything is consumed, every buffer is retired */
__CPROVER_ensures(bufferctrl__live_num == 0 && WV_BG->fin->pos >= WV_BG->fin->len)
/* encryption appends exactly 16*(floor(n/16)+1) bytes, each output offset written exactly once */
__CPROVER_ensures(WV_BG->ispadding ==> (WV_BG->fout->pos == __CPROVER_old(WV_BG->fout->pos) + WV_ENC_OUT_OLD && WV_BG->fout->len == WV_BG->fout->pos &&
                                        WV_BG->fout->nbytes == __CPROVER_old(WV_BG->fout->nbytes) + WV_ENC_OUT_OLD))
/* decryption appends at most the body length (and nothing at all for an empty body) */
__CPROVER_ensures(!WV_BG->ispadding ==> (WV_BG->fout->nbytes - __CPROVER_old(WV_BG->fout->nbytes) <= (WV_PIPE_N_OLD) &&
                                         WV_BG->fout->pos == __CPROVER_old(WV_BG->fout->pos) + (WV_BG->fout->nbytes - __CPROVER_old(WV_BG->fout->nbytes)) &&
                                         WV_BG->fout->len == WV_BG->fout->pos))
/* every write is an append at or after the old end of the output: nothing before it is touched */
__CPROVER_ensures(wv_wP < __CPROVER_old(WV_BG->fout->pos) ==> (wv_wcount == __CPROVER_old(wv_wcount) && wv_wbyte == __CPROVER_old(wv_wbyte)))
__CPROVER_ensures((wv_wP >= __CPROVER_old(WV_BG->fout->pos) && wv_wP < WV_BG->fout->pos) ==> wv_wcount == __CPROVER_old(wv_wcount) + 1)
__CPROVER_ensures(WV_BG->fout->open && WV_BG->fin->open);
#endif

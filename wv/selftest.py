"""Native validation of the trusted specification library against published vectors (DESIGN.md section 3)."""
import hashlib, os, subprocess

VERIF = os.path.dirname(os.path.dirname(os.path.abspath(__file__)))
FAMILIES = {
    'aes': ['C01', 'C02', 'C09', 'C10'],
    'hash': ['C01', 'C02', 'C05', 'C06', 'C07', 'C08', 'C18'],
    'modes': ['C01', 'C02', 'C10'],
    'b64': ['C16', 'C17'],
}


def run(prop, tier, seed, work):
    res = {'ok': True, 'detail': '', 'families': []}
    spec = os.path.join(VERIF, 'spec')
    for fam, props in FAMILIES.items():
        src = os.path.join(spec, 'selftest_%s.c' % fam)
        if prop not in props or not os.path.exists(src):
            continue
        exe = os.path.join(work, 'selftest_' + fam)
        r = subprocess.run(['gcc', '-std=gnu11', '-O1', '-w', '-I' + spec, src, '-o', exe], stdout=subprocess.PIPE, stderr=subprocess.STDOUT)
        if r.returncode != 0:
            res['ok'] = False
            res['detail'] += 'cannot compile %s: %s' % (src, r.stdout.decode()[-300:])
            continue
        r = subprocess.run([exe, str(seed), tier], stdout=subprocess.PIPE, stderr=subprocess.STDOUT, timeout=600)
        out = r.stdout.decode().strip()
        res['families'].append({'family': fam, 'output': out[-300:]})
        if r.returncode != 0:
            res['ok'] = False
            res['detail'] += out[-300:]
    return res

/* P-D ghost file: assumed contracts of the stdio functions the repository uses (trusted base; written from POSIX / glibc
   behaviour).  Length and position are symbolic 64-bit numbers; file content is not modelled byte by byte. */
#ifndef WV_C_FILE_H
#define WV_C_FILE_H
#define WV_FILE_OK(f) ((f)->open && (f)->pos <= (f)->len && (f)->len < (1ull << 58))
/* POSIX allows a position beyond the end of the file (after fseek); a read there returns nothing */
#define WV_FILE_OPEN(f) ((f)->open && (f)->pos < (1ull << 58) && (f)->len < (1ull << 58))
#define WV_AVAIL_OLD(f) (__CPROVER_old((f)->pos) <= __CPROVER_old((f)->len) ? __CPROVER_old((f)->len) - __CPROVER_old((f)->pos) : 0)

/* fread(p, 1, n, f): reads min(n, bytes available) bytes, advances the position, sets the EOF indicator only on a short read.
   Content: the byte at the observed absolute offset wv_rP, and every byte of a read of at most 8 bytes, is the file's byte. */
#define WV_RD8(k) (((k) < n && n <= 8 && (k) < __CPROVER_return_value) ==> ((const unsigned char *)p)[k] == wv_filebyte(f->id, __CPROVER_old(f->pos) + (k)))
size_t wv_fread(void *p, size_t sz, size_t n, wv_FILE *f)
__CPROVER_requires(sz == 1 && __CPROVER_is_fresh(f, sizeof(*f)) && WV_FILE_OPEN(f) && __CPROVER_is_fresh(p, n))
__CPROVER_assigns(f->pos, f->eof, __CPROVER_object_upto(p, n))
__CPROVER_ensures(__CPROVER_return_value == (n <= WV_AVAIL_OLD(f) ? n : WV_AVAIL_OLD(f)))
__CPROVER_ensures(f->pos == __CPROVER_old(f->pos) + __CPROVER_return_value)
__CPROVER_ensures(f->eof == (__CPROVER_old(f->eof) || __CPROVER_return_value < n))
__CPROVER_ensures((__CPROVER_old(f->pos) <= wv_rP && wv_rP < __CPROVER_old(f->pos) + __CPROVER_return_value) ==>
                  ((const unsigned char *)p)[wv_rP - __CPROVER_old(f->pos)] == wv_filebyte(f->id, wv_rP))
__CPROVER_ensures(WV_RD8(0) && WV_RD8(1) && WV_RD8(2) && WV_RD8(3) && WV_RD8(4) && WV_RD8(5) && WV_RD8(6) && WV_RD8(7));

int wv_feof(wv_FILE *f)
__CPROVER_requires(__CPROVER_is_fresh(f, sizeof(*f)) && WV_FILE_OPEN(f))
__CPROVER_assigns()
__CPROVER_ensures((__CPROVER_return_value != 0) == f->eof);

/* fgetc: EOF (and the indicator set) at end of file, otherwise one byte is consumed */
int wv_fgetc(wv_FILE *f)
__CPROVER_requires(__CPROVER_is_fresh(f, sizeof(*f)) && WV_FILE_OPEN(f))
__CPROVER_assigns(f->pos, f->eof)
__CPROVER_ensures(__CPROVER_old(f->pos) >= f->len ? (__CPROVER_return_value == EOF && f->eof && f->pos == __CPROVER_old(f->pos))
                                                  : (__CPROVER_return_value >= 0 && __CPROVER_return_value <= 255 && f->pos == __CPROVER_old(f->pos) + 1 && f->eof == __CPROVER_old(f->eof)));

/* ungetc of the byte just read: the position goes back by one and the EOF indicator is cleared */
int wv_ungetc(int c, wv_FILE *f)
__CPROVER_requires(__CPROVER_is_fresh(f, sizeof(*f)) && WV_FILE_OPEN(f) && f->pos >= 1 && c >= 0 && c <= 255)
__CPROVER_assigns(f->pos, f->eof)
__CPROVER_ensures(__CPROVER_return_value == c && f->pos == __CPROVER_old(f->pos) - 1 && !f->eof);

/* fseek(f, off, whence): sets the position to off from the start, the current position or the end (seeking beyond the end is
   allowed by POSIX), clears the EOF indicator; ftell(f): the position.  (A target before the start fails with EINVAL in libc; the
   contract requires a non-negative target, so a call site that cannot show it fails its precondition.) */
#define WV_SEEK_TARGET(f, off, whence) ((whence) == SEEK_SET ? (long)(off) : (whence) == SEEK_CUR ? (long)(f)->pos + (long)(off) : (long)(f)->len + (long)(off))
int wv_fseek(wv_FILE *f, long off, int whence)
__CPROVER_requires(__CPROVER_is_fresh(f, sizeof(*f)) && f->open && (whence == SEEK_SET || whence == SEEK_CUR || whence == SEEK_END) && off > -(1l << 57) && off < (1l << 57) &&
                   (whence == SEEK_CUR ==> f->pos < (1ull << 58)) && (whence == SEEK_END ==> f->len < (1ull << 58)) && WV_SEEK_TARGET(f, off, whence) >= 0 && WV_SEEK_TARGET(f, off, whence) < (1l << 58))
__CPROVER_assigns(f->pos, f->eof)
__CPROVER_ensures(__CPROVER_return_value == 0 && f->pos == (wv_u64)(whence == SEEK_SET ? (long)off : whence == SEEK_CUR ? (long)__CPROVER_old(f->pos) + (long)off : (long)f->len + (long)off) && !f->eof);

long wv_ftell(wv_FILE *f)
__CPROVER_requires(__CPROVER_is_fresh(f, sizeof(*f)) && f->open && f->pos < (1ull << 62))
__CPROVER_assigns()
__CPROVER_ensures(__CPROVER_return_value == (long)f->pos);

/* fwrite(p, 1, n, f): writes n bytes at the position, extends the file, and updates the ghost write log; the byte that lands on
   the observed offset wv_wP is recorded */
#define WV_WCOVERS(f, n) (__CPROVER_old((f)->pos) <= wv_wP && wv_wP < __CPROVER_old((f)->pos) + (n))
size_t wv_fwrite(const void *p, size_t sz, size_t n, wv_FILE *f)
__CPROVER_requires(sz == 1 && __CPROVER_is_fresh(f, sizeof(*f)) && f->open && f->len < (1ull << 60) && f->pos < (1ull << 60) && n < (1ull << 40) && __CPROVER_is_fresh(p, n))
__CPROVER_assigns(*f, wv_w)
__CPROVER_ensures(f->open && f->id == __CPROVER_old(f->id) && f->eof == __CPROVER_old(f->eof))
__CPROVER_ensures(__CPROVER_return_value == n && f->pos == __CPROVER_old(f->pos) + n)
__CPROVER_ensures(f->len == (__CPROVER_old(f->pos) + n > __CPROVER_old(f->len) ? __CPROVER_old(f->pos) + n : __CPROVER_old(f->len)))
__CPROVER_ensures(f->nwrites == __CPROVER_old(f->nwrites) + 1 && f->nbytes == __CPROVER_old(f->nbytes) + n)
__CPROVER_ensures(f->last_woff == __CPROVER_old(f->pos) && f->last_wlen == n)
__CPROVER_ensures(f->min_woff == (n > 0 && __CPROVER_old(f->pos) < __CPROVER_old(f->min_woff) ? __CPROVER_old(f->pos) : __CPROVER_old(f->min_woff)))
__CPROVER_ensures(WV_WCOVERS(f, n) ? (wv_wbyte == ((const unsigned char *)p)[wv_wP - __CPROVER_old(f->pos)] && wv_wseen && wv_wcount == __CPROVER_old(wv_wcount) + 1)
                                   : (wv_wbyte == __CPROVER_old(wv_wbyte) && wv_wseen == __CPROVER_old(wv_wseen) && wv_wcount == __CPROVER_old(wv_wcount)));

int wv_fclose(wv_FILE *f)
__CPROVER_requires(__CPROVER_is_fresh(f, sizeof(*f)) && f->open)
__CPROVER_assigns(f->open)
__CPROVER_ensures(!f->open);
/* strlen on the seed string: the harness-chosen length wv_slen is the position of its first NUL (assumed contract) */
size_t wv_strlen(const char *s)
__CPROVER_requires(wv_slen < (1ull << 31) && __CPROVER_is_fresh(s, wv_slen + 1) && s[wv_slen] == 0)
__CPROVER_assigns()
__CPROVER_ensures(__CPROVER_return_value == wv_slen);
#endif

/* NIST SP 800-38A one-step recurrences of the five confidentiality modes, as macros parametric in the block cipher
   E(x) / D(x) (forward / inverse cipher function under the stream's key).  Blocks and the feedback register are 128-bit
   values in any fixed byte order (xor is byte-wise); the CTR counter is additionally read as a big-endian integer.
     ECB  6.1:  C = E(P)                         P = D(C)
     CBC  6.2:  C = E(P ^ IV),  IV' = C          P = D(C) ^ IV,  IV' = C
     CFB128 6.3: C = P ^ E(IV), IV' = C          P = C ^ E(IV),  IV' = C
     OFB  6.4:  O = E(IV), C = P ^ O, IV' = O    same for decryption
     CTR  6.5:  C = P ^ E(T),  T' = T + 1 mod 2^128 (standard incrementing function over the whole block, B.1)  */
#ifndef MODES_SPEC_H
#define MODES_SPEC_H
#define SPEC_ECB_ENC_OUT(E, D, iv, x) E(x)
#define SPEC_ECB_ENC_IV(E, D, iv, x) (iv)
#define SPEC_ECB_DEC_OUT(E, D, iv, x) D(x)
#define SPEC_ECB_DEC_IV(E, D, iv, x) (iv)
#define SPEC_CBC_ENC_OUT(E, D, iv, x) E((x) ^ (iv))
#define SPEC_CBC_ENC_IV(E, D, iv, x) E((x) ^ (iv))
#define SPEC_CBC_DEC_OUT(E, D, iv, x) (D(x) ^ (iv))
#define SPEC_CBC_DEC_IV(E, D, iv, x) (x)
#define SPEC_CFB_ENC_OUT(E, D, iv, x) ((x) ^ E(iv))
#define SPEC_CFB_ENC_IV(E, D, iv, x) ((x) ^ E(iv))
#define SPEC_CFB_DEC_OUT(E, D, iv, x) ((x) ^ E(iv))
#define SPEC_CFB_DEC_IV(E, D, iv, x) (x)
#define SPEC_OFB_OUT(E, D, iv, x) ((x) ^ E(iv))
#define SPEC_OFB_IV(E, D, iv, x) E(iv)
#define SPEC_CTR_OUT(E, D, iv, x) ((x) ^ E(iv))
/* the counter as a big-endian integer: T' = T + 1 mod 2^128 (unsigned __int128 wraps) */
#define SPEC_CTR_NEXT_BE(t_be) ((t_be) + 1)
#endif

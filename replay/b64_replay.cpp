// Replay for the base64 obligations: the real codec and key validator of /repo against the RFC 4648 specification library.
// exit 1 = failing input printed, 0 = none found
#include "base64.h"
#include <stdio.h>
#include <stdlib.h>
#include <string.h>
extern "C" {
#include "b64_spec.h"
}
int main(int argc, char **argv)
{
  unsigned seed = argc > 1 ? atoi(argv[1]) : 1;
  srand(seed);
  // validator: valid keys with their '=' padding replaced by alphabet symbols, non-alphabet symbols at each position, other lengths
  for (int it = 0; it < 20000; ++it)
  {
    unsigned char s[32];
    for (int i = 0; i < 24; ++i) s[i] = spec_b64_char(rand());
    int kind = it % 6;
    if (kind <= 2) { s[22] = kind >= 1 ? '=' : spec_b64_char(rand()); s[23] = kind >= 2 ? '=' : spec_b64_char(rand()); if (kind == 1) { s[22] = spec_b64_char(rand()); s[23] = '='; } }
    else { s[22] = s[23] = '='; if (kind == 4) s[rand() % 22] = (unsigned char)rand(); if (kind == 5) s[rand() % 22] = "-,._ \n=\0"[rand() % 8]; }
    s[24] = 0;
    bool want = spec_b64_is_key_string(s);
    bool got = is_valid_b64(s, 24);
    if (want != got)
    {
      printf("FAILING INPUT: key validator %s the 24-character string \"", got ? "accepts" : "rejects");
      for (int i = 0; i < 24; ++i) printf(s[i] >= 32 && s[i] < 127 ? "%c" : "\\x%02x", s[i]);
      printf("\" which %s the encoding of a 16-byte value", want ? "is" : "is not");
      if (got)
      {
        int tail = (s[22] == '=') + (s[23] == '=');
        printf(" (decoding it writes %d bytes into the 16-byte key buffer)", 18 - tail);
      }
      printf("\n");
      return 1;
    }
  }
  // validator, lengths other than 24: NUL-terminated strings of every length 0..40 made of alphabet symbols with 0, 1 or 2 '=' at the end
  // (the shapes a length test that is off, rounds, or tolerates missing padding lets through); nothing but length 24 may be accepted
  for (int it = 0; it < 20000; ++it)
  {
    unsigned char s[48];
    int len = it < 41 * 3 ? it / 3 : rand() % 41, pad = it < 41 * 3 ? it % 3 : rand() % 3;
    if (len == 24) continue;
    memset(s, 0, sizeof s);
    for (int i = 0; i < len; ++i) s[i] = i >= len - pad ? '=' : spec_b64_char(rand());
    if (is_valid_b64(s, len))
    {
      printf("FAILING INPUT: key validator accepts the %d-character string \"%s\" (only 24-character encodings of 16-byte values may be accepted; "
             "the callers decode a fixed 24 symbols into the 16-byte key buffer)\n", len, (const char *)s);
      return 1;
    }
  }
  // codec
  for (int it = 0; it < 20000; ++it)
  {
    int n = rand() % 49;
    unsigned char in[64], out[128], dec[128];
    for (int i = 0; i < n; ++i) in[i] = it % 7 == 0 ? (unsigned char)(rand() % 4 ? 0xff : 0x00) : rand();
    memset(out, 0x55, sizeof out);
    hex_to_base64(in, n, out);
    int olen = 4 * ((n + 2) / 3);
    for (int g = 0; 3 * g < n; ++g)
      for (int j = 0; j < 4; ++j)
        if (out[4 * g + j] != spec_b64_enc_char(in + 3 * g, n - 3 * g, j))
        {
          printf("FAILING INPUT: encoding of %d bytes differs from RFC 4648 at symbol %d (input group %02x %02x %02x)\n", n, 4 * g + j, in[3 * g], in[3 * g + 1], in[3 * g + 2]);
          return 1;
        }
    if (out[olen] != 0) { printf("FAILING INPUT: encoding of %d bytes is not NUL-terminated at %d\n", n, olen); return 1; }
    base64_to_hex(out, olen, dec);
    if (memcmp(dec, in, n)) { printf("FAILING INPUT: decode(encode(x)) != x for %d bytes\n", n); return 1; }
  }
  printf("no failing input among 20000 candidate key strings and 20000 byte strings\n");
  return 0;
}

#!/bin/bash
# confirm_seed.sh <patch.diff> <demo.cpp> <property> "<demo compile command with DEMO_SRC and DEMO_EXE placeholders, run in the worktree>" [extra properties...]
# Confirms a seeded change in a scratch worktree of /repo (outside /repo and /verif): builds, runs the stable ctest targets,
# runs the demonstration without and with the change, then runs the property checks against the changed tree.
# Prints one summary line per step; exit 0 iff everything is as a seeded change should be AND the check detects it.
set -u
PATCH=$(readlink -f "$1"); DEMO=$(readlink -f "$2"); PROP=$3; DEMOCMD=$4; shift 4
WT=/tmp/wvc-$$
EXCL="Testsmall|Testsmode|Testshash|Testbig"
cleanup() { git -C /repo worktree remove --force "$WT" >/dev/null 2>&1; rm -rf "$WT" /tmp/wvc-ev-$$; }
trap cleanup EXIT
git -C /repo worktree add -q --detach "$WT" HEAD || exit 3
cd "$WT" || exit 3
build_and_test() {
  cmake -G Ninja -B _build -S . >/dev/null 2>&1 && cmake --build _build >/dev/null 2>&1 || { echo "  build: FAILED"; return 1; }
  local ok=0
  for try in 1 2 3; do
    if ctest --test-dir _build -j1 --timeout 120 -E "$EXCL" >_build/ctest.log 2>&1; then ok=1; break; fi
  done
  [ $ok = 1 ] && echo "  build+stable ctest: pass" || { echo "  stable ctest: FAILED"; tail -15 _build/ctest.log; return 1; }
}
run_demo() {
  local cmd=${DEMOCMD//DEMO_SRC/$DEMO}; cmd=${cmd//DEMO_EXE/$WT/_demo}
  eval "$cmd" >/dev/null 2>_demo.err || { echo "  demo does not compile"; cat _demo.err | head -5; return 99; }
  timeout 600 ./_demo >_demo.out 2>&1; return $?
}
echo "== clean tree"
# (CLEAN_OK=1: the unchanged tree was built and tested by an earlier confirmation of this session; the demonstration is still run on it)
if [ "${CLEAN_OK:-0}" = 1 ]; then echo "  build+stable ctest: pass (earlier in this session)"; else build_and_test || exit 3; fi
run_demo; rc=$?; echo "  demo exit on clean tree: $rc"; [ $rc = 0 ] || exit 3
echo "== with $PATCH"
git apply "$PATCH" 2>/dev/null || git apply --3way "$PATCH" 2>/dev/null || patch -p1 --fuzz=3 -s < "$PATCH" || { echo "  patch does not apply"; exit 3; }
git diff --stat | tail -n 1
build_and_test || exit 3
run_demo; rc=$?; echo "  demo exit on changed tree: $rc"; tail -3 _demo.out | sed 's/^/    /'; [ $rc != 0 ] || exit 3
rm -rf _build
res=0
for P in $PROP "$@"; do
  out=$(cd /verif && WV_REPO="$WT" WV_EVIDENCE_DIR=/tmp/wvc-ev-$$ bin/check $P 2>&1); rc=$?
  echo "== check $P on changed tree: exit $rc"; echo "$out" | grep -E "VIOLATION|failed obligation|UNDECIDED|KNOWN" | head -8 | sed 's/^/    /'
  if [ "$P" = "$PROP" ] && [ $rc != 1 ]; then res=1; fi
done
exit $res

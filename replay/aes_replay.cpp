// Replay for the AES obligations: the real encryaes/decryaes of /repo against the FIPS-197 specification library.
// exit 1 = a failing (key, block) was found and printed; exit 0 = none found.
#include "aes.h"
#include <stdio.h>
#include <stdlib.h>
#include <string.h>
extern "C" {
#include "aes_spec.h"
}
static void hex(const char *n, const u8_t *p) { printf("%s=", n); for (int i = 0; i < 16; ++i) printf("%02x", p[i]); printf(" "); }
int main(int argc, char **argv)
{
  unsigned seed = argc > 1 ? atoi(argv[1]) : 1;
  int n = argc > 2 ? atoi(argv[2]) : 20000;
  srand(seed);
  for (int it = 0; it < n; ++it)
  {
    u8_t k[16], b[16], c[16], d[16];
    for (int i = 0; i < 16; ++i) { k[i] = it < 3 ? (it == 1 ? 0xff : 0) : rand(); b[i] = it < 3 ? (it == 2 ? 0xff : 0) : rand(); }
    wv_u128 K[11];
    K[0] = spec_load(k);
    for (int r = 1; r < 11; ++r) K[r] = spec_nextkey(K[r - 1], r);
    wv_u128 e = spec_cipher(spec_load(b), K);
    memcpy(c, b, 16);
    encryaes enc(k);
    enc.runaes_128bit(c);
    memcpy(d, c, 16);
    decryaes dec(k);
    dec.runaes_128bit(d);
    int bad_enc = 0, bad_dec = memcmp(d, b, 16) != 0;
    u8_t want[16];
    for (int i = 0; i < 16; ++i) { want[i] = spec_store_byte(e, i); if (want[i] != c[i]) bad_enc = 1; }
    if (bad_enc || bad_dec)
    {
      printf("FAILING INPUT (%s): ", bad_enc ? "encryption differs from FIPS-197" : "decryption does not invert encryption");
      hex("key", k); hex("block", b); hex("real_ciphertext", c); hex("fips197_ciphertext", want); hex("real_decrypt_of_ciphertext", d);
      printf("\n");
      return 1;
    }
  }
  printf("no failing input among %d (key, block) pairs\n", n);
  return 0;
}

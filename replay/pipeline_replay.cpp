// Replay driver for the file-level properties: runs the real runcrypt of /repo.
// usage: pipeline_replay roundtrip <len> <T> <cmode> <hmode> [tamper_off tamper_val]
//   encrypts a deterministic plaintext of <len> bytes, optionally overwrites one byte of the encrypted file, then verifies and decrypts.
//   prints one line: RESULT enc=<0/1> verify=<0/1> dec=<0/1> same=<0/1> outlen=<n>
// exit: 0 = round trip exact (or tampered file rejected with no output), 1 = property violated, crash/hang are left to the caller (signal / timeout)
#include "cry.h"
#include <stdio.h>
#include <stdlib.h>
#include <string.h>
#include <unistd.h>
#include <vector>
static std::vector<unsigned char> slurp(const char *p) { std::vector<unsigned char> v; FILE *f = fopen(p, "rb"); if (!f) return v; unsigned char buf[65536]; size_t n; while ((n = fread(buf, 1, sizeof buf, f)) > 0) v.insert(v.end(), buf, buf + n); fclose(f); return v; }
// usage: pipeline_replay streams <T> <cmode>
//   C18: encrypts T equal 16 MiB chunks (all bytes 0x5A) with T streams and compares the ciphertext chunks of stream 0 and stream i;
//   prints RESULT ... equal_chunks=<n>; exit 1 if any two streams produced the same ciphertext chunk in a non-ECB mode
static int streams(int T, int cm)
{
  char dir[] = "/tmp/wvreplayXXXXXX"; if (!mkdtemp(dir)) return 2; if (chdir(dir)) return 2;
  const size_t CH = 16u << 20; size_t len = CH * T;
  { FILE *f = fopen("plain", "wb"); std::vector<unsigned char> b(CH, 0x5A); for (int i = 0; i < T; ++i) fwrite(b.data(), 1, CH, f); fclose(f); }
  unsigned char key[16]; for (int i = 0; i < 16; ++i) key[i] = 0xA0 + i;
  unsigned char seed[32] = "wv-replay-seed";
  { FILE *fin = fopen("plain", "rb"), *fout = fopen("cipher", "wb+"); Settings s(cm, 0, true); runcrypt r(fin, fout, key, s, T); r.execute_encrypt(len, seed); }
  std::vector<unsigned char> c = slurp("cipher");
  unlink("plain"); unlink("cipher"); rmdir(dir);
  size_t body = 48 + 20 * (size_t)T; int equal = 0, same_iv = 0;
  if (c.size() < body + len) return 2;
  for (int i = 1; i < T; ++i) {
    if (memcmp(&c[body], &c[body + CH * i], CH) == 0) ++equal;
    if (memcmp(&c[48], &c[48 + 20 * i], 16) == 0) ++same_iv;
  }
  printf("\nRESULT streams T=%d cmode=%d equal_chunks=%d (ciphertext chunk of stream i equals that of stream 0 for equal plaintext chunks) header_ivs_equal=%d\n", T, cm, equal, same_iv);
  return (cm != 0 && equal > 0) ? 1 : 0;
}
int main(int argc, char **argv)
{
  if (argc >= 4 && !strcmp(argv[1], "streams")) return streams(atoi(argv[2]), atoi(argv[3]));
  if (argc < 6) return 2;
  size_t len = strtoull(argv[2], 0, 10); int T = atoi(argv[3]), cm = atoi(argv[4]), hm = atoi(argv[5]);
  char dir[] = "/tmp/wvreplayXXXXXX"; if (!mkdtemp(dir)) return 2; if (chdir(dir)) return 2;
  { FILE *f = fopen("plain", "wb"); std::vector<unsigned char> b(65536); size_t done = 0; unsigned x = 12345;
    while (done < len) { size_t n = len - done < b.size() ? len - done : b.size(); for (size_t i = 0; i < n; ++i) { x = x * 1103515245u + 12345u; b[i] = x >> 16; } fwrite(b.data(), 1, n, f); done += n; } fclose(f); }
  unsigned char key[16]; for (int i = 0; i < 16; ++i) key[i] = 0xA0 + i;
  unsigned char seed[32] = "wv-replay-seed";
  bool enc, ver, dec;
  { FILE *fin = fopen("plain", "rb"), *fout = fopen("cipher", "wb+"); Settings s(cm, hm, true); runcrypt r(fin, fout, key, s, T); enc = r.execute_encrypt(len, seed); }
  if (argc >= 8) { FILE *f = fopen("cipher", "rb+"); fseek(f, atol(argv[6]), SEEK_SET); fputc(atoi(argv[7]), f); fclose(f); }
  size_t clen = slurp("cipher").size();
  { FILE *fin = fopen("cipher", "rb"); Settings s(-1, -1, true); runcrypt r(fin, NULL, key, s, T); ver = r.execute_verify(clen); }
  { FILE *fin = fopen("cipher", "rb"), *fout = fopen("back", "wb+"); Settings s(-1, -1, true); runcrypt r(fin, fout, key, s, T); dec = r.execute_decrypt(clen); }
  std::vector<unsigned char> a = slurp("plain"), b = slurp("back");
  bool same = a == b;
  printf("\nRESULT len=%zu T=%d cmode=%d hmode=%d enc=%d verify=%d dec=%d same=%d outlen=%zu cipherlen=%zu expected_cipherlen=%zu\n", len, T, cm, hm, enc, ver, dec, same, b.size(), clen, (size_t)(48 + 20 * T + 16 * (len / 16 + 1)));
  unlink("plain"); unlink("cipher"); unlink("back"); rmdir(dir);
  bool tampered = argc >= 8;
  if (tampered && atol(argv[6]) == 9 && atoi(argv[7]) != 3 && atoi(argv[7]) != 255)
  { // hash-mode byte: besides the battery's random value also the first out-of-range value and the largest one (a range check that is off by one
    // lets exactly 3 through to a NULL hasher); a child that dies from a signal counts as a failure
    for (int v = 3; v <= 255; v += 252)
    {
      if (chdir("/")) return 2;
      char cmd[512]; snprintf(cmd, sizeof cmd, "'%s' roundtrip %s %s %s %s 9 %d", argv[0], argv[2], argv[3], argv[4], argv[5], v);
      fflush(stdout);
      int rc = system(cmd);
      if (rc != 0) { printf("RESULT (same run with the hash-mode byte at offset 9 set to %d) failed or crashed (wait status %d)\n", v, rc); return 1; }
    }
  }
  if (tampered && atol(argv[6]) == 40)
  { // the battery's header offset 40 is a tag byte for SHA-256 and a reserved byte otherwise: also try 43 and 47, which lie behind the tag for every tag length
    // (reserved, not authenticated, read by nobody: verify and decrypt must still agree on such a file)
    if (chdir("/")) return 2;      // this run's scratch directory is gone already
    for (int off = 43; off <= 47; off += 4)
    {
      char cmd[512]; snprintf(cmd, sizeof cmd, "'%s' roundtrip %s %s %s %s %d %s", argv[0], argv[2], argv[3], argv[4], argv[5], off, argv[7]);
      fflush(stdout);
      int rc = system(cmd);
      if (rc != 0) { printf("RESULT (same run with the byte at header offset %d overwritten instead) failed\n", off); return 1; }
    }
  }
  if (!tampered) return (enc && ver && dec && same) ? 0 : 1;
  if (ver != dec) return 1;                       // C12
  if (dec && !same) return 1;                     // C05: success with different plaintext
  if (!dec && b.size() != 0) return 1;            // C06/C11: failed decryption wrote output
  return 0;
}
